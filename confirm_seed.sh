#!/bin/bash
# usage: confirm_seed.sh <inbox-dir> ; confirms demo passes without / fails with the patch, and the
# repository suite still passes with it, in a scratch worktree of /repo HEAD. Appends to /tmp/wt/confirm.log
D="$1"; N=$(basename "$D"); WT=/tmp/wt/confirm_$N
rm -rf "$WT"; git -C /repo worktree add -q "$WT" HEAD || exit 2
cd "$WT"
PYTHONPATH="$WT/src" /venv/bin/python "$D/demo.py" > /tmp/wt/confirm_$N.clean.out 2>&1; C=$?
if git apply "$D/patch.diff"; then
  PYTHONPATH="$WT/src" /venv/bin/python "$D/demo.py" > /tmp/wt/confirm_$N.mut.out 2>&1; M=$?
  S=$(/tmp/wt/suite.sh "$WT" 8 | tail -1)
else M="patch-does-not-apply"; S="-"; fi
echo "$N demo_clean_exit=$C demo_mutant_exit=$M suite=[$S] head=$(git -C /repo rev-parse --short HEAD)" >> /tmp/wt/confirm.log
cd /; git -C /repo worktree remove --force "$WT"
