#!/usr/bin/env python3
"""Copies confirmed seeds from /tmp/seeds_inbox into /verif/seeded/<id>/ with a meta.json built from
the confirmation log and the seed-vs-check matrix."""
import json, re, shutil, sys
from pathlib import Path

inbox = Path("/tmp/seeds_inbox")
out = Path("/verif/seeded")
confirm = {}
for f in ("/tmp/wt/confirm.log",):
    if Path(f).exists():
        for line in Path(f).read_text().splitlines():
            name = line.split()[0]
            confirm[name] = line
matrix = {}
ml = out / "matrix.log"
if ml.exists():
    for line in ml.read_text().splitlines():
        p = line.split()
        if len(p) == 3:
            matrix.setdefault(p[0], {})[p[1]] = p[2]
props = {json.loads(l)["id"]: json.loads(l) for l in open("/verif/properties.jsonl")}
kept = []
only = sys.argv[1] if len(sys.argv) > 1 else None  # e.g. "_r5": keep only seeds whose name contains it
for d in sorted(inbox.iterdir()):
    name = d.name
    if only and only not in name:
        continue
    c = confirm.get(name, "")
    ok = "demo_clean_exit=0" in c and "demo_mutant_exit=1" in c and "SUITE-OK" in c
    if not ok:
        print("NOT KEPT (not confirmed at current HEAD):", name, c[:160])
        continue
    tgt = out / name
    tgt.mkdir(parents=True, exist_ok=True)
    for fn in ("patch.diff", "demo.py", "notes.md"):
        shutil.copy(d / fn, tgt / fn)
    pid = name.split("_")[0]
    notes = (d / "notes.md").read_text()
    head = re.search(r"head=(\w+)", c)
    meta = {
        "seed": name,
        "property": pid,
        "property_title": props[pid]["title"],
        "origin": "fresh sub-agent given only the property text and a scratch worktree",
        "needs_to_manifest": notes.strip().split("\n\n")[-1][:1200] if notes else "",
        "confirmed": {
            "repo_head": head.group(1) if head else None,
            "demo_on_clean_tree": "exit 0 (PASS)",
            "demo_with_patch": "exit 1 (FAIL)",
            "repository_suite_with_patch": "SUITE-OK (no test fails that passes without the patch)",
            "command": "/verif/confirm_seed.sh (scratch worktree of /repo HEAD, removed afterwards)",
        },
        "checks_run_against_it": matrix.get(name, {}),
        "caught_by": sorted(k for k, v in matrix.get(name, {}).items() if v == "caught"),
    }
    (tgt / "meta.json").write_text(json.dumps(meta, indent=1))
    kept.append(name)
print("kept", len(kept), kept)
