# Source of MANIFEST.json (run gen_manifest.py after editing).
ENGINES = [
    {"name": "E3-scheduler", "path": "mc/explore_sched.py", "serves_properties": ["C14", "C15"],
     "kind_free_text": "cooperative scheduler for simulated worker processes (threads with a baton) + fake pool / manager queues with pickling; iterative preemption bounding on top of E1"},
    {"name": "E4-faults", "path": "mc/faults.py", "serves_properties": ["C12"],
     "kind_free_text": "call-indexed fault injector for user callbacks: every call index x fault kind is enumerated"},
    {"name": "E1-choice", "path": "mc/explore_choice.py", "serves_properties": ["C01"],
     "kind_free_text": "stateless DFS over choice points of the real code, weighted, deviation-bounded"},
    {"name": "E2-bfs", "path": "mc/explore_bfs.py", "serves_properties": ["C09", "C18", "C19"],
     "kind_free_text": "explicit-state BFS over operation histories of real objects (replay from scratch, canonical-form dedup)"},
    {"name": "lattice", "path": "mc/lattice.py", "serves_properties": ["C02", "C03", "C04", "C05", "C06", "C07", "C08", "C10", "C11", "C13", "C16", "C17", "C20"],
     "kind_free_text": "complete enumeration of a finite configuration / program lattice against an independent reference"},
]
NOTES = ("All checks explore the real mici code imported from /repo/src; no abstract model. "
         "All twenty properties are claimed; see DESIGN.md for strength per property, "
         "known_findings.json for recorded defects.")
CLAIMED = {
    "C01": dict(
        engine="E1-choice", category="model_checking", design_ref="DESIGN.md section 3 (C01)",
        technique="exhaustive enumeration of all random-draw outcomes of Transition.sample (stateless choice-point DFS) with exact probabilities; stationarity checked on finite orbits",
        text="Every outcome of every random draw inside the real Transition.sample is enumerated with its exact probability on ring orbit tables (all energy tables over a 3-letter alphabet up to rotation, families of termination-criterion tables, all start states) and on windows of real integrator orbits; sum_i pi_i P(i->j) = pi_j is checked to 1e-10 and the reported n_step/accept statistics are checked in every execution.",
        note="Trusts CPython/NumPy; invariance is checked per orbit on finite tables/windows; continuous energies are a lattice.",
    ),
    "C02": dict(
        engine="lattice", category="exploration", design_ref="DESIGN.md section 5 (C02)",
        technique="complete enumeration of integrator configuration x system x metric x step size x trajectory length lattice, plus bounded enumeration of solver deviations (another genuine root returned at every solver call index)",
        text="Every integrator configuration (explicit compositions with user coefficients, implicit leapfrog/midpoint x both fixed-point solvers, constrained leapfrog x three projection solvers x inner steps, default and tightened tolerances) x compatible system x metric x states x both directions x eps in {0.025..1.0} x n=1..3 is integrated forward, reversed and integrated back: it must return to the start to solver tolerance or raise an IntegratorError; the input state object must be bit-identical after every step. Environment deviations: at every projection-solver call index of a round trip the far root of the sphere constraint is returned instead; the round trip must raise or still return to the start.",
        note="IntegratorError outcomes are allowed and counted; a floor of 60% completed round trips at small step sizes guards against vacuity.",
    ),
    "C03": dict(
        engine="lattice", category="exploration", design_ref="DESIGN.md section 5 (C03)",
        technique="complete enumeration of integrator x system lattice; finite-difference Jacobian and symplectic-form oracle (restricted to the cotangent bundle for constrained systems)",
        text="For every integrator configuration x compatible system (non-linear targets, position-dependent metrics, curved manifolds) x metric x lattice states x step sizes the Jacobian of the n-step map is computed by 4th-order central differences with tightened solver tolerances and J^T Omega J = Omega is checked; for constrained systems a tangent basis of the cotangent bundle and harness-side projections are used and the induced form is compared before and after.",
        note="Numerical oracle, lattice states only; tolerance 2e-6 (1+|J|^2).",
    ),
    "C04": dict(
        engine="lattice", category="exploration", design_ref="DESIGN.md section 5 (C04)",
        technique="complete enumeration of constraint x metric x density convention x solver x solver-kwargs x inner-step x step-size lattice with manifold monitors; direct solver calls judged by residual and Lagrange-form oracle; tolerance ladder enumerating every stopping point of the projection iteration for both documented norms",
        text="Constraint residual and cotangent condition are monitored after every successful constrained step (3 consecutive steps), every sampled momentum and every projection, for all three projection solvers, inner step counts, solver kwargs (iteration / line-search caps) and step sizes incl. ones that provoke failure; direct solver calls from states after an unconstrained h2_flow (also far off the manifold) must either raise ConvergenceError or return a state whose residual is below tolerance and whose position/momentum correction has Lagrange-multiplier form (dense least squares).",
        note="Start points are put on the manifold by harness code; lattice states only.",
    ),
    "C05": dict(
        engine="lattice", category="exploration", design_ref="DESIGN.md section 5 (C05)",
        technique="complete enumeration of system class x metric type x return convention x dimension lattice; dense-reference and finite-difference oracle",
        text="Every Hamiltonian value/derivative method of every system class (all eleven, each constant-metric type incl. implicit identity, low-rank up/downdates, every Riemannian family and SoftAbs coefficient, every accepted return convention, d=1..3) is compared at lattice states with a dense NumPy reference of the documented formula and with central differences of that reference; sum rules h=h1+h2 etc. are checked to rounding.",
        note="Continuous inputs are a finite lattice (shifted by VERIF_SEED); FD oracle tolerance 2e-6; zoo derivatives self-tested.",
    ),
    "C06": dict(
        engine="lattice", category="exploration", design_ref="DESIGN.md section 5 (C06)",
        technique="exhaustive enumeration of composition coefficient tuples on a recording system (exact sub-step log) plus integrator x system lattice against a reference ODE/DAE flow",
        text="(i) every symmetric composition with free coefficients from {1,2,3,4}/10 (up to 4/5 free coefficients, both flow orders), BCSS schemes, leapfrog and the constrained scheme with N inner steps are run on a recording system: the sub-step log of the stepped state must alternate, be palindromic and sum to one per component; (ii) every integrator x compatible system on the lattice: one-step error against a DOP853 reference flow of the documented Hamiltonian over a step-size ladder must shrink with slope >= 2.5 and |dH|/eps^2 stay bounded.",
        note="Numerical oracle (reference ODE/DAE solve at rtol 1e-11); lattice states only; thresholds calibrated (correct integrators measure 2.8-3.1).",
    ),
    "C07": dict(
        engine="lattice", category="exploration", design_ref="DESIGN.md section 5 (C07)",
        technique="complete enumeration of tractable-flow system x metric type x time lattice; closed-form / matrix-exponential oracle",
        text="For every tractable-flow system class x constant metric type (incl. implicit identity and low-rank up/downdates) x d=1..3 x t in +-{0.1,1,7}: h1_flow leaves the position bit-identical and kicks the momentum by -t grad h1; h2_flow equals the drift / matrix exponential of the linear Hamilton equations, conserves h2, is additive in time and undone by -t; dh2_flow_dmom blocks equal the images of basis momenta.",
        note="Flows of h2 are linear, so basis inputs characterise them; SciPy expm is the reference.",
    ),
    "C08": dict(
        engine="lattice", category="exploration", design_ref="DESIGN.md section 5 (C08)",
        technique="basis-vector enumeration of the (linear) momentum maps through a scripted generator for every system x metric type; exact covariance identity",
        text="sample_momentum is characterised exactly by feeding basis normal draws through a scripted generator (linearity verified on further vectors): L L^T must equal the metric at the position (projected onto the cotangent space for constrained systems) for every system class x metric type / Riemannian family x d=1..3; the correlated transition is characterised as A mom + B z and must satisfy A C A^T + B B^T = C; coefficients 1 and 0 reduce to full refresh (bit-identical) and no change (no generator call).",
        note="Exact up to rounding because the maps are linear; positions from the lattice.",
    ),
    "C09": dict(
        engine="E2-bfs", category="model_checking", design_ref="DESIGN.md section 4 (C09)",
        technique="explicit-state BFS over histories of assignments / copies / pickles / flows / cached-method calls on real ChainState and System objects, with a fixed probe suffix in every distinct state; from-scratch state as reference model",
        text="For every system class x return convention a BFS (depth 2 quick, 3 thorough) over histories of variable assignment (new array or in-place write-through), direction assignment, copy, read-only copy, pickle round trip, component flows and calls of every cached method on up to two live states; in every distinct canonical state every method of two distinct system objects on every live state is compared exactly with a from-scratch state, then again after re-assigning each variable, and after invalidating + deriving (pickle / copy / read-only copy) + re-assigning (probe suffix). Second clause: integrator steps and transitions on an amnesic state (cache forgets after one read) equal those on a normal state bit for bit.",
        note="States with equal canonical form (values, flags, cache digests, aliasing of cached arrays with live variables, dependency sets) are merged; value alphabet of two letters per variable.",
    ),
    "C10": dict(
        engine="lattice", category="exploration", design_ref="DESIGN.md section 5 (C10)",
        technique="exhaustive enumeration of matrix expression trees up to a depth bound; dense-algebra oracle on every node",
        text="All expression trees up to depth 2 (quick) / 3 (thorough) over every matrix class x constructor option x size 1..3 and the composite constructors (block, low-rank with sign +-1, with/without inner and capacitance matrices) with operators T, inv, sqrt, neg, scalar *, /, and @ are evaluated and every observable (array, products, diagonal, log_abs_det, inverse, eigen-pairs, sqrt, transpose) compared with the same tree on dense arrays; type clause checked.",
        note="Leaf parameters are a fixed well-conditioned lattice; tolerance 1e-10 scaled by magnitude and condition number.",
    ),
    "C11": dict(
        engine="lattice", category="exploration", design_ref="DESIGN.md section 5 (C11)",
        technique="complete enumeration of differentiable matrix class x option lattice; finite-difference oracle over free parameter entries",
        text="Every DifferentiableMatrix class and option (sign +-1, lower/upper, inner matrix, SoftAbs coefficients, repeated eigenvalues, block compositions) at sizes 1..3(4): grad_log_abs_det and grad_quadratic_form_inv against central differences of the dense formulas over exactly the free parameter entries, including structure (zeros outside the triangle, tuple of blocks).",
        note="FD step 1e-5, tolerance 2e-6 relative; symmetric perturbations for symmetric-array parameters.",
    ),
    "C12": dict(
        engine="E4-faults", category="fault_enumeration", design_ref="DESIGN.md section 3 (C12)",
        technique="exhaustive enumeration of (callback, call index, fault kind) injection points inside driver chains and inside direct solver calls",
        text="For 9 integrator/system/solver combinations x 4 transition types, a fault-free run counts the calls of every user callback (density, gradient, constraint, Jacobian, metric, Hessian, VJP/MHP/MTP and their returned closures) inside the integration transition; then for every call index and every fault kind (NaN, +inf, -inf; ValueError and LinAlgError while a solve_* frame is active; forced non-convergence at every solver call index) the run is repeated. Oracle: sample returns, state finite and equal to the pre-transition state or a completed step, matching error flag set and accept_stat 0, Metropolis does not move after an integrator error, the chain continues. The five solvers are also called directly under the same fault menu: only ConvergenceError may escape and any return must satisfy the convergence criterion re-evaluated fault-free.",
        note="Quick tier arms faults in the first iteration only; exceptions are injected only inside iterative solves as the property states.",
    ),
    "C13": dict(
        engine="lattice", category="exploration", design_ref="DESIGN.md section 5 (C13)",
        technique="enumeration of the sampler option product; every run judged row by row against the log of a recording wrapper around every transition (run-time reference model)",
        text="Product of sampler type (generic MCMC with stub transitions, static / random / multinomial / slice HMC) x chains 1..3 x warm-up {0,1,3} x main {0,1,3} x trace_warm_up x trace function sets (none, default, overlapping keys, integer valued) x monitor_stats x adapters x stager x initial-state form; a recording wrapper around every transition logs the post-transition state and statistics per chain (chain id travels in the state) and every trace row, statistic row (cast to its dtype), array length and final state is compared with the log; a subset is re-run with forced memmap in a temporary and a user directory (.npy files compared) and on the real process pool with n_process 2 and None.",
        note="Quick tier takes every 3rd option combination (thorough: all); real-pool mismatches must be seen in three consecutive runs.",
    ),
    "C14": dict(
        engine="E3-scheduler", category="model_checking", design_ref="DESIGN.md section 6 (C14)",
        technique="stateless exploration of all schedules of the real _sample_chains_parallel against a simulated process pool under iterative preemption bounding; conformance runs on the real pool with delay subsets",
        text="The unmodified parallel sampling code runs against a scheduler-controlled in-process pool (pickled task arguments, queue items and results): every interleaving of manager-queue operations, worker start/exit and result collection up to the preemption bound (1 quick / 2 thorough for single-stage runs) must terminate and return exactly the n_process=1 outputs, for n_process {2,3} x chains {2,3,4} x single/multi-stage (with step-size and variance adapters) x all supported bit generators. The same configurations run on the real pool with every subset of chains delayed. Independence of a chain from other chains' initial states and from the number of chains, and non-replay / distinctness of the recorded random streams are checked directly.",
        note="max_leaves cap per configuration is reported in caps_hit when reached; the simulated pool is validated by the real-pool conformance runs.",
    ),
    "C15": dict(
        engine="E4-faults", category="fault_enumeration", design_ref="DESIGN.md section 6 (C15)",
        technique="exhaustive enumeration of interrupt points (chain, callback, call index), crossed with schedules of the simulated pool",
        text="Every call of neg_log_dens, grad_neg_log_dens and the trace function made inside an iteration of an uninterrupted run is used in turn as the point where KeyboardInterrupt is raised, for sequential runs, runs on the simulated pool (all schedules up to the bound) and on the real pool, single- and multi-stage (with and without adapters), in-memory and memory-mapped storage, 1..3 chains. Oracle: the call returns, completed iterations equal the uninterrupted run bit for bit, rows not reached keep their fill values, the row in progress is fill-or-true array by array, later stages are not started, finished chains are unaffected, final states are aligned with chains, finite and equal to the state after the last completed transition, .npy files equal the returned arrays.",
        note="Evaluations made during adapter initialisation are outside iterations and are not interrupt points.",
    ),
    "C16": dict(
        engine="lattice", category="model_checking", design_ref="DESIGN.md section 4 (C16)",
        technique="exhaustive enumeration of the stager's input space (pure function) plus complete product of real sequential sampling runs observed through recording adapters and a recording transition (run-time monitor on every run)",
        text="(i) Stager.stages is enumerated over n_warm_up 0..400 and {1000,1003}, n_main {0,1,7}, window settings and multipliers, five adapter mixes and trace_warm_up: warm-up lengths sum exactly, the last stage is the non-adaptive main stage, slow adapters only in slow windows, fast adapters in all warm-up stages, termination under a watchdog. (ii) real sample_chains runs over n_warm_up {0..12,20(,150)} x n_main {0,1,3} x chains {1,2} x four stager choices x five adapter mixes with recording subclasses of the three adapters and a recording wrapper around the integration transition: no adapter activity in the main stage, step size and metric constant there and equal to the values left by the finalize of the last warm-up stage that performed an update (initial values if none).",
        note="AdaptationError raised to the caller is counted as an explicit refusal, not judged.",
    ),
    "C17": dict(
        engine="lattice", category="exploration", design_ref="DESIGN.md section 5 (C17)",
        technique="exhaustive enumeration of acceptance-statistic sequences, environment answer tables for the initial search, and position sequences x ordered chain partitions; reference recursion / exact rational arithmetic oracle",
        text="Dual averaging: every accept-statistic sequence over {0,0.25,0.8,1} up to length 5 (6 thorough) x settings lattice through the real initialize/update/finalize against a 10-line reference recursion, every reducer over 1..3 chains. Initial search: all 4^7 environment tables (energy change at step size 2^k is small / large / NaN / step fails) - the returned step size must sit at a crossing of log 2 or AdaptationError be raised. Variance and covariance adapters: every sequence of 2..4 (5) positions from plain and offset-1e6 alphabets, every ordered assignment to <= 3 chains, three regularisations; the metric must equal the inverse of the exactly (rationally) computed regularised pooled estimate and momenta must be refreshed under the new metric.",
        note="Alphabets are finite; tolerance 1e-9 relative scaled by conditioning.",
    ),
    "C18": dict(
        engine="E2-bfs", category="model_checking", design_ref="DESIGN.md section 4 (C18)",
        technique="explicit-state BFS as for C09 with call counters on every user callback; E1 choice exploration of all random outcomes of transitions for the gradient-count clause",
        text="In every distinct state of the C09 history space, for every cached method on every live state: a repeat call, a call on a copy, a call after assigning only variables the method does not depend on, and requests for lower-order values after a derivative callback that returned them, evaluate zero user callbacks (counted by wrappers around every user function). Trajectory clause: explicit integrators evaluate the gradient at most once per position over n=1..8 steps (n+1 for leapfrog), and every transition type, over all outcomes of its random draws, evaluates the gradient exactly once per new position when started from a state whose gradient is cached.",
        note="Documented dependencies of cached methods are tabulated in the harness; evaluations at a never-evaluated start state are not judged.",
    ),
    "C19": dict(
        engine="E2-bfs", category="model_checking", design_ref="DESIGN.md section 4 (C19)",
        technique="explicit-state BFS over orders of lazy-attribute accesses and operations on real matrix objects; invariants in every state",
        text="For every zoo matrix a BFS over public accesses/operations up to depth 2 (quick) / 3 (thorough) reaches every pattern of populated lazy slots; in every state: parameter arrays bit-identical, all observables equal to a fresh twin (order independence, operands unchanged), copies/deepcopies/pickles equal, in-place writes through caller-supplied or publicly reachable parameter arrays refused or without effect; == / hash clauses over all pairs and near-twin pairs.",
        note="States merged by populated-slot pattern (argument in evidence assumptions); observables compared to 1e-12.",
    ),
    "C20": dict(
        engine="lattice", category="exploration", design_ref="DESIGN.md section 5 (C20)",
        technique="complete enumeration of a log-value lattice (incl. 1-ulp neighbours of branch points) x operators x accumulation sequences; high-precision decimal oracle",
        text="All unary helpers on a lattice spanning the double range, all binary helpers and LogRepFloat operators on lattice^2, mixed operations with plain numbers in both operand orders, all in-place accumulation sequences of length <= 3 over 8 weights, against decimal arithmetic (130 digits with series, self-tested against 800-digit brute force).",
        note="Mixed operations whose plain value underflows are not judged (documented to go through the linear representation).",
    ),
}
_ALL = ["C%02d" % i for i in range(1, 21)]
NOT_APPLICABLE = {p: "check not built yet" for p in _ALL if p not in CLAIMED}
