# Source of MANIFEST.json (run gen_manifest.py after editing).
ENGINES = [
    {"name": "E1-choice", "path": "mc/explore_choice.py", "serves_properties": ["C01"],
     "kind_free_text": "stateless DFS over choice points of the real code, weighted, deviation-bounded"},
]
NOTES = ("All checks explore the real mici code imported from /repo/src; no abstract model. "
         "Properties not yet claimed are listed under not_applicable with reason 'check not built yet' "
         "while the framework is under construction.")
CLAIMED = {
    "C01": dict(
        engine="E1-choice", category="model_checking", design_ref="DESIGN.md section 3 (C01)",
        technique="exhaustive enumeration of all random-draw outcomes of Transition.sample (stateless choice-point DFS) with exact probabilities; stationarity checked on finite orbits",
        text="Every outcome of every random draw inside the real Transition.sample is enumerated with its exact probability on ring orbit tables (all energy tables over a 3-letter alphabet up to rotation, families of termination-criterion tables, all start states) and on windows of real integrator orbits; sum_i pi_i P(i->j) = pi_j is checked to 1e-10 and the reported n_step/accept statistics are checked in every execution.",
        note="Trusts CPython/NumPy; invariance is checked per orbit on finite tables/windows; continuous energies are a lattice.",
    ),
}
_ALL = ["C%02d" % i for i in range(1, 21)]
NOT_APPLICABLE = {p: "check not built yet (framework under construction; will be claimed once its check exists)"
                  for p in _ALL if p not in CLAIMED}
