#!/bin/bash
# usage: run_all.sh quick|thorough [seed]   - runs every check, prints one line per property
T="${1:-quick}"; export VERIF_SEED="${2:-0}"
cd /verif
for i in $(seq -w 1 20); do
  P="C$i"; s=$(date +%s)
  out=$(timeout 5400 ./check $P --tier $T 2>&1); rc=$?
  e=$(( $(date +%s) - s ))
  echo "$P tier=$T seed=$VERIF_SEED rc=$rc ${e}s $(echo "$out" | grep -c '^VIOLATION') violations $(echo "$out" | grep -c '^KNOWN-FINDING') known $(echo "$out" | grep HARNESS | head -1 | cut -c1-120)"
done
