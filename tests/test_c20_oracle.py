"""The fast decimal oracle of C20 agrees with brute force at 800 digits."""
from decimal import Decimal, localcontext
from mc.props import c20


def brute_log1p_exp(v):
    return (1 + v.exp()).ln()


def brute_log1m_exp(v):
    return (1 - v.exp()).ln()


def test_fast_oracle_matches_brute_force():
    pts = ["-5e-324", "-1e-300", "-1e-45", "-1e-39", "-1e-20", "-1e-10", "-0.5", "-0.6931471805599453",
           "-1", "-36", "-37", "-91", "-93", "-709", "-745", "-1700"]
    for s in pts:
        v = Decimal(s)
        with localcontext(c20._ctx(800)):
            b1, b2 = brute_log1p_exp(v), brute_log1m_exp(v)
        with localcontext(c20._ctx()):
            f1, f2 = c20.d_log1p_exp(v), c20.d_log1m_exp(v)
            assert abs(f1 - b1) <= abs(b1) * Decimal(10) ** -60, s
            assert abs(f2 - b2) <= abs(b2) * Decimal(10) ** -60, s
            # positive arguments of log1p_exp
            with localcontext(c20._ctx(800)):
                b3 = -v + brute_log1p_exp(v)
            assert abs(c20.d_log1p_exp(-v) - b3) <= abs(b3) * Decimal(10) ** -60, s
