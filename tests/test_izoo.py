"""Reference flows conserve the reference energy and stay on the constraint manifold."""
import numpy as np
from mc import izoo, zoo


def test_reference_flows():
    cfgs = [
        {"family": "euclidean", "d": 2, "target": "quartic", "metric": "dense_pd", "seed": 0},
        {"family": "gaussian", "d": 3, "target": "logcosh", "metric": "pos_diagonal", "seed": 1},
        {"family": "riemannian", "d": 2, "target": "quartic", "kind": "dense", "seed": 0},
        {"family": "constrained", "d": 3, "target": "quartic", "metric": "dense_pd",
         "constraint": "ellplane", "hausdorff": False, "seed": 0},
        {"family": "gaussian_constrained", "d": 2, "target": "quartic", "metric": "identity",
         "constraint": "sphere", "seed": 0},
    ]
    for cfg in cfgs:
        case = zoo.build_case(cfg)
        sts = zoo.on_manifold_states(case, cfg["seed"], 1) if case.constraint is not None \
            else zoo.states(case.d, cfg["seed"], 1)
        q, p = sts[0]
        q1, p1 = izoo.ref_flow(case, q, p, 0.3)
        assert abs(case.h_ref(q1, p1) - case.h_ref(q, p)) < 1e-8, cfg
        if case.constraint is not None:
            assert np.max(np.abs(case.constraint.c(q1))) < 1e-9
            Mi = np.linalg.inv(case.metric_ref(q1))
            assert np.max(np.abs(case.constraint.jac(q1) @ Mi @ p1)) < 1e-8
        # additivity of the reference itself
        qa, pa = izoo.ref_flow(case, *izoo.ref_flow(case, q, p, 0.1), 0.2)
        assert np.max(np.abs(qa - q1)) < 1e-8 and np.max(np.abs(pa - p1)) < 1e-8
