"""Self-test of the E2 BFS explorer on a toy counter machine with a known state graph."""
from mc.explore_bfs import bfs


def test_bfs_counts_states_and_transitions():
    # world: (a, b) with ops inc_a (a<2), inc_b (b<1), reset
    def build(hist):
        a = b = 0
        for op in hist:
            if op == "inc_a":
                a = min(a + 1, 2)
            elif op == "inc_b":
                b = min(b + 1, 1)
            else:
                a = b = 0
        return (a, b)

    seen_inv = []
    res = bfs(build, lambda w, h: ["inc_a", "inc_b", "reset"], lambda w: w,
              lambda w, h: seen_inv.append(w), max_depth=6)
    assert res["states"] == 6  # a in 0..2, b in 0..1
    assert res["transitions"] == 6 * 3
    assert res["max_depth"] == 3
    # invariant evaluated in the initial state and after every transition
    assert len(seen_inv) == 1 + res["transitions"]


def test_invariant_new_only():
    calls = []
    res = bfs(lambda h: len(h) % 2, lambda w, h: ["x"], lambda w: w,
              lambda w, h: calls.append(w), max_depth=5, invariant_new_only=True)
    assert res["states"] == 2 and calls == [0, 1]
