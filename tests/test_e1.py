"""Self-tests of the E1 choice explorer on hand-computed drivers."""
import pytest
from mc.explore_choice import explore, Ctx, Divergence


def two_coins(ctx):
    a = ctx.choose((0.25, 0.75), "a")
    b = ctx.choose((0.5, 0.5), "b") if a == 0 else ctx.choose(3, "c")
    return (a, b)


def test_two_coins_all_leaves_and_weights():
    leaves = {}
    res = explore(two_coins, lambda ctx, r: leaves.__setitem__(r, ctx.weight))
    assert res["leaves"] == 5
    assert abs(res["total_weight"] - 1.0) < 1e-15
    assert leaves[(0, 0)] == 0.125 and leaves[(0, 1)] == 0.125
    assert all(abs(leaves[(1, k)] - 0.25) < 1e-15 for k in range(3))


def test_deviation_bound():
    seen = []
    explore(two_coins, lambda ctx, r: seen.append((r, ctx.deviations)), bound=0)
    assert seen == [((0, 0), 0)]
    seen = []
    explore(two_coins, lambda ctx, r: seen.append((r, ctx.deviations)), bound=1)
    assert sorted(seen) == [((0, 0), 0), ((0, 1), 1), ((1, 0), 1)]


def test_zero_weight_alternatives_not_scheduled():
    res = explore(lambda ctx: ctx.choose((0.0, 1.0, 0.0)), lambda c, r: None)
    assert res["leaves"] == 1 and res["total_weight"] == 1.0


def test_prefix_replay_is_deterministic_and_divergence_is_error():
    ctx = Ctx([1, 2])
    assert two_coins(ctx) == (1, 2)
    ctx2 = Ctx([1, 2])
    assert two_coins(ctx2) == (1, 2) and ctx2.choices == ctx.choices
    with pytest.raises(Divergence):
        two_coins(Ctx([1, 5]))
    with pytest.raises(Divergence):
        Ctx([0]).choose((0.0, 1.0))
