"""Zoo derivatives verified by central finite differences before any check trusts them."""
import numpy as np
import pytest
from mc import zoo


def fd_grad(f, q, h=1e-5):
    q = np.array(q, dtype=float)
    f0 = np.asarray(f(q))
    out = np.zeros(f0.shape + q.shape)
    for k in range(q.size):
        e = np.zeros_like(q); e[k] = h
        out[..., k] = (np.asarray(f(q + e)) - np.asarray(f(q - e))) / (2 * h)
    return out


@pytest.mark.parametrize("d", [1, 2, 3])
@pytest.mark.parametrize("name", ["quartic", "logcosh", "gauss"])
def test_target_derivatives(d, name):
    t = zoo.Target(name, d)
    for q, _ in zoo.states(d, seed=3):
        assert np.allclose(t.grad(q), fd_grad(t.f, q), rtol=1e-7, atol=1e-8)
        assert np.allclose(t.hess(q), fd_grad(t.grad, q), rtol=1e-7, atol=1e-8)
        assert np.allclose(t.tress(q), fd_grad(t.hess, q), rtol=1e-6, atol=1e-7)
        m = np.arange(d * d, dtype=float).reshape(d, d) / 3 + 0.5
        assert np.allclose(t.mtp_fn("plain")(q)(m), np.einsum("ij,ijk->k", m, t.tress(q)))


@pytest.mark.parametrize("d", [1, 2, 3])
@pytest.mark.parametrize("kind", zoo.RIEMANN_KINDS)
def test_riemann_family_derivatives(d, kind):
    fam = zoo.RiemannFamily(kind, d, zoo.Target("quartic", d))
    for q, _ in zoo.states(d, seed=5):
        assert np.allclose(fam.dparam(q), fd_grad(fam.param, q), rtol=1e-6, atol=1e-7)
        M = fam.dense_metric(q)
        assert np.allclose(M, M.T) and np.all(np.linalg.eigvalsh(M) > 0)


@pytest.mark.parametrize("d", [2, 3])
def test_constraints(d):
    for con in zoo.constraints(d, seed=2):
        for q, p in zoo.states(d, seed=2):
            assert np.allclose(con.jac(q), fd_grad(con.c, q), rtol=1e-7, atol=1e-8)
            assert np.allclose(con.hess(q), fd_grad(con.jac, q), rtol=1e-7, atol=1e-8)
            Mi = np.linalg.inv(zoo.spd(d))
            try:
                q2 = con.project(q, Mi)
            except RuntimeError:
                continue
            assert np.max(np.abs(con.c(q2))) < 1e-12
            p2 = con.project_mom(q2, p, Mi)
            assert np.max(np.abs(con.jac(q2) @ Mi @ p2)) < 1e-12


@pytest.mark.parametrize("d", [1, 2, 3])
def test_constant_metric_dense_forms_are_spd(d):
    for name, fac, dense in zoo.constant_metrics(d, seed=1):
        assert dense.shape == (d, d)
        assert np.allclose(dense, dense.T) and np.all(np.linalg.eigvalsh(dense) > 0), name
        fac()  # constructs
