"""Self-tests of the small reference / device models used by the checks."""
import os
import tempfile

import numpy as np

from mc import cacheworld as cw
from mc.props import c15


def test_write_back_model_tracks_unflushed_writes():
    d = tempfile.mkdtemp()
    fn = os.path.join(d, "a.npy")
    c15.MEMSTATE.clear()
    np.lib.format.open_memmap = c15._tracked_open_memmap
    try:
        m = np.lib.format.open_memmap(fn, dtype=float, mode="w+", shape=(4,))
        m[:] = np.nan                      # the initial fill
        assert c15.MEMSTATE[fn] == "fill"
        m[1] = 2.0                         # a row write: dirty until flushed
        assert c15.MEMSTATE[fn] == "dirty"
        m.flush()
        assert c15.MEMSTATE[fn] == "clean"
        m2 = np.lib.format.open_memmap(fn)  # re-opened (what a worker does)
        m2[2] = 3.0
        assert c15.MEMSTATE[fn] == "dirty"
        m2[:] = 1.0                        # whole-array write after a row write stays dirty
        assert c15.MEMSTATE[fn] == "dirty"
        m2.flush()
        assert c15.MEMSTATE[fn] == "clean"
    finally:
        np.lib.format.open_memmap = c15._REAL_OPEN_MEMMAP
    assert np.load(fn)[0] == 1.0


def test_validity_model_of_cache_world():
    w = cw.World("constrained_gram", "mixed_top", 2)
    w.apply(["call", "s0", "A", "jacob_constr"])
    assert w.valid["s0"] == {"jacob_constr"}          # plain convention: nothing else returned
    w.apply(["call", "s0", "A", "mhp_constr"])
    assert {"mhp_constr", "jacob_constr", "constr"} <= w.valid["s0"]
    w.apply(["copy", "s0", "s1", True])
    w.apply(["set", "s0", "mom", 1, "new"])
    assert "constr" in w.valid["s0"]                  # pos-only methods survive a mom assignment
    w.apply(["set", "s0", "pos", 1, "new"])
    assert w.valid["s0"] == set() and "constr" in w.valid["s1"]   # the copy keeps its values
    w.apply(["pickle", "s1", "s0"])
    assert w.valid["s0"] == set()                     # pickled copies: nothing demanded


def test_callback_conventions():
    assert cw.callback_conv("with_value", "grad_neg_log_dens") == "with_value"
    assert cw.callback_conv("mixed_top", "grad_neg_log_dens") == "plain"
    assert cw.callback_conv("mixed_top", "mhp_constr") == "with_value"
    assert cw.callback_conv("mixed_mid", "hess_neg_log_dens") == "with_value"
    assert cw.callback_conv("mixed_mid", "mtp_neg_log_dens") == "plain"


def test_wavy_manifold_jacobian_and_tolerances():
    from mc.props import c02, c20
    from decimal import Decimal

    system, c, jac = c02.wavy_system()
    q = np.array([1.3e-3, 0.2e-3, 1e7 + 0.25])
    h = 1e-9
    fd = np.array([(c(q + h * e)[0] - c(q - h * e)[0]) / (2 * h) for e in np.eye(3)])
    assert np.allclose(jac(q)[0], fd, rtol=1e-4, atol=1e-6)
    # relative-precision tolerance of log-sum-exp: tiny when the result is tiny, never zero
    ex = Decimal(4.248354255291589e-18)
    assert 0 < c20.tol_lse(0.0, -40.0, ex) < 1e-30
    assert c20.tol_lse(1000.0, 999.0, Decimal(1000.3132616875182)) < 1e-11
