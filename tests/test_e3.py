"""Self-test of the E3 scheduler on a two-worker lost-update race."""
import mici.samplers as ms
from mc.explore_choice import explore
from mc.explore_sched import run_schedule

MEM = {"v": 0}


def racy_worker(q):
    tmp = MEM["v"]
    q.empty()  # scheduling point between the read and the write
    MEM["v"] = tmp + 1
    return tmp


def body():
    MEM["v"] = 0
    with ms._ignore_sigint_manager() as manager, ms._pool_context_manager(2) as pool:
        q = manager.Queue()
        res = pool.starmap_async(racy_worker, [(q,), (q,)])
        res.get()
    return MEM["v"]


def outcomes(bound):
    seen = []

    def run(ctx):
        status, val, sched = run_schedule(ctx, body)
        assert status == "ok", (status, val)
        return val

    res = explore(run, lambda ctx, r: seen.append((r, ctx.deviations)), bound=bound)
    return res, seen


def test_lost_update_needs_one_preemption():
    res0, seen0 = outcomes(0)
    assert {v for v, _ in seen0} == {2}
    res1, seen1 = outcomes(1)
    assert {v for v, _ in seen1} == {1, 2}
    res, seen = outcomes(None)
    assert res["leaves"] == 6  # all interleavings of two workers with two segments each
    assert sorted(v for v, _ in seen).count(1) == 4 or {v for v, _ in seen} == {1, 2}


def blocked_worker(q):
    return q.get()  # nobody ever puts: must be reported as a hang


def test_hang_is_detected():
    def body2():
        with ms._ignore_sigint_manager() as manager, ms._pool_context_manager(1) as pool:
            q = manager.Queue()
            pool.starmap_async(blocked_worker, [(q,)]).get()

    from mc.explore_choice import Ctx
    status, val, sched = run_schedule(Ctx([]), body2)
    assert status == "hang"


def putter(q):
    for i in range(3):
        q.put(i)
    return "done"


def test_parent_side_interrupt_is_injected_at_the_kth_blocking_get():
    from mc import explore_sched as ES
    from mc.explore_choice import Ctx

    got = []

    def body3():
        with ms._ignore_sigint_manager() as manager, ms._pool_context_manager(1) as pool:
            q = manager.Queue()
            q.name = "iter_queue"
            res = pool.starmap_async(putter, [(q,)])
            try:
                for _ in range(3):
                    got.append(q.get())
            except KeyboardInterrupt:
                got.append("interrupted")
            res.get()
        return list(got)

    ES.PARENT_FAULT.update(label="iter_queue.get", k=1, count=0, fired=False)
    try:
        status, val, sched = run_schedule(Ctx([]), body3)
    finally:
        ES.PARENT_FAULT.update(label=None, k=None, count=0, fired=False)
    assert status == "ok", (status, val)
    assert val == [0, "interrupted"]          # the second blocking get of the parent is interrupted
