#!/bin/bash
# Offline setup: nothing to build (pure Python run from /repo/src); run the self-tests of the machinery.
set -e
cd "$(dirname "${BASH_SOURCE[0]}")"
mkdir -p evidence replays
export PYTHONPATH="/repo/src:$PWD" PYTHONHASHSEED=0 OMP_NUM_THREADS=1 OPENBLAS_NUM_THREADS=1 PYTHONDONTWRITEBYTECODE=1
/venv/bin/python -m pytest -q -p no:cacheprovider tests -x
