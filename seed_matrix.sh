#!/bin/bash
# usage: seed_matrix.sh <seed-name> <check> [<check> ...]  - appends "seed check verdict" lines to seeded/matrix.log
S="$1"; shift
for P in "$@"; do
  out=$(timeout 1500 /verif/try_seed.sh /tmp/seeds_inbox/$S $P 2>&1)
  n=$(echo "$out" | grep -c '^VIOLATION')
  h=$(echo "$out" | grep -c 'HARNESS-ERROR\|PATCH DOES NOT APPLY')
  if [ "$h" != "0" ]; then v="harness-error-or-patch-problem"; elif [ "$n" != "0" ]; then v="caught"; else v="missed"; fi
  echo "$S $P $v" | tee -a /verif/seeded/matrix.log
done
