#!/usr/bin/env python3
"""Hand-written property-breaking edits (the 'mutants it must catch' of DESIGN.md).

usage: mutants.py [name ...]   - applies each edit to /repo, runs the listed checks (quick tier),
reverts, and appends 'name check verdict' lines to seeded/mutants.log.  Nothing is committed.
"""
import subprocess
import sys
from pathlib import Path

R = Path("/repo/src/mici")
M = [
    # name, file, old, new, checks
    ("c01_no_second_dir_flip", "transitions.py",
     "            state = state_p\n        # Reverse integration direction of new state\n        # As extended target distribution is symmetric in direction indicator\n        # this always leaves the distribution invariant\n        state.dir *= -1",
     "            state = state_p", ["C01"]),
    ("c01_subtree_biased_progressive", "transitions.py",
     "accept_outer_prob = self._weight_ratio(outer_tree.weight, tree.weight)",
     "accept_outer_prob = self._weight_ratio(outer_tree.weight, inner_tree.weight)", ["C01"]),
    ("c01_criterion_on_inner_outer", "transitions.py",
     "terminate = self._termination_criterion(tree, neg_subtree, pos_subtree)\n        return terminate, tree, proposal",
     "terminate = self._termination_criterion(tree, inner_tree, outer_tree)\n        return terminate, tree, proposal",
     ["C01"]),
    ("c01_nstep_before_step", "transitions.py",
     "                state = self.integrator.step(state)\n                h = self.system.h(state)",
     "                stats[\"n_step\"] += 1\n                state = self.integrator.step(state)\n                stats[\"n_step\"] -= 0\n                h = self.system.h(state)",
     ["C01"]),
    ("c01_accept_stat_over_tree_size", "transitions.py",
     "stats[\"av_metrop_accept_prob\"] = sum_accept_prob / stats[\"n_step\"]",
     "stats[\"av_metrop_accept_prob\"] = sum_accept_prob / (stats[\"n_step\"] + 1)", ["C01"]),
    ("c02_step_mutates_input", "integrators.py",
     "        state = state.copy()\n        self._step(state, state.dir * self.step_size)\n        return state",
     "        new_state = state.copy()\n        self._step(state, state.dir * self.step_size)\n        new_state, state = state, new_state\n        return new_state",
     ["C02"]),
    ("c02_nonpalindromic", "integrators.py",
     "self.coefficients = coefficients + coefficients[-2::-1]",
     "self.coefficients = coefficients + coefficients[-2:0:-1] + [coefficients[0] * 1.0001]",
     ["C02", "C06"]),
    ("c03_projection_scaled", "systems.py",
     "        mom -= self.jacob_constr(state).T @ (\n            self.inv_gram(state) @ (self.jacob_constr(state) @ (self.metric.inv @ mom))\n        )\n        return mom",
     "        mom -= self.jacob_constr(state).T @ (\n            self.inv_gram(state) @ (self.jacob_constr(state) @ (self.metric.inv @ mom))\n        )\n        return mom * (1 + 0.01 * float(state.pos[0]))",
     ["C03", "C02", "C08"]),
    ("c04_convergence_on_delta_pos_only", "solvers.py",
     "            if error < constraint_tol and norm(delta_pos) < position_tol:\n                state.mom -= np.sign(time_step) * dh2_flow_mom_dmom @ mu\n                return state\n            mu += delta_mu\n            state.pos -= delta_pos\n    except (ValueError, LinAlgError) as e:\n        # Make robust to errors in intermediate linear algebra ops\n        msg = f\"{type(e)} at iteration {i} of Newton solver ({e}).\"",
     "            if norm(delta_pos) < position_tol * 1e6:\n                state.mom -= np.sign(time_step) * dh2_flow_mom_dmom @ mu\n                return state\n            mu += delta_mu\n            state.pos -= delta_pos\n    except (ValueError, LinAlgError) as e:\n        # Make robust to errors in intermediate linear algebra ops\n        msg = f\"{type(e)} at iteration {i} of Newton solver ({e}).\"",
     ["C04"]),
    ("c04_unsigned_time_step", "solvers.py",
     "                state.mom -= np.sign(time_step) * dh2_flow_mom_dmom @ mu\n                return state\n            mu += delta_mu\n            state.pos -= delta_pos\n    except (ValueError, LinAlgError) as e:\n        # Make robust to errors in intermediate linear algebra ops\n        msg = f\"{type(e)} at iteration {i} of quasi-Newton solver ({e}).\"",
     "                state.mom -= dh2_flow_mom_dmom @ mu\n                return state\n            mu += delta_mu\n            state.pos -= delta_pos\n    except (ValueError, LinAlgError) as e:\n        # Make robust to errors in intermediate linear algebra ops\n        msg = f\"{type(e)} at iteration {i} of quasi-Newton solver ({e}).\"",
     ["C04", "C02"]),
    ("c05_h1_missing_half", "systems.py",
     "return self.neg_log_dens(state) + 0.5 * self.metric(state).log_abs_det",
     "return self.neg_log_dens(state) + self.metric(state).log_abs_det", ["C05", "C06"]),
    ("c07_gaussian_flow_sign", "systems.py",
     "cos_omega_dt * eigvec_trans_mom - (sin_omega_dt / omega) * eigvec_trans_pos",
     "cos_omega_dt * eigvec_trans_mom + (sin_omega_dt / omega) * eigvec_trans_pos", ["C07"]),
    ("c08_sqrt_transposed", "systems.py",
     "return self.metric(state).sqrt @ rng.normal(size=state.pos.shape)",
     "return self.metric(state).sqrt.T @ rng.normal(size=state.pos.shape)", ["C08"]),
    ("c08_inverse_sqrt", "systems.py",
     "return self.metric.sqrt @ rng.standard_normal(state.pos.shape)",
     "return self.metric.inv.sqrt @ rng.standard_normal(state.pos.shape)", ["C08"]),
    ("c09_copy_shares_variables", "states.py",
     "**{name: copy.copy(val) for name, val in self._variables.items()},",
     "**{name: val for name, val in self._variables.items()},", ["C09", "C02"]),
    ("c09_setattr_clears_first_dep_only", "states.py",
     "            for dep in self._dependencies[name]:\n                self._cache[dep] = None",
     "            for dep in sorted(self._dependencies[name])[:1]:\n                self._cache[dep] = None",
     ["C09"]),
    ("c10_diag_right_multiply", "matrices.py",
     "    def _right_matrix_multiply(self, other: NDArray) -> NDArray:\n        return self.diagonal * other\n\n    @property\n    def eigvec(self) -> IdentityMatrix:",
     "    def _right_matrix_multiply(self, other: NDArray) -> NDArray:\n        return (self.diagonal * other.T).T\n\n    @property\n    def eigvec(self) -> IdentityMatrix:",
     ["C10"]),
    ("c12_catch_only_valueerror_subclass", "solvers.py",
     "    except (ValueError, LinAlgError) as e:\n        # Make robust to errors in intermediate linear algebra ops\n        msg = f\"{type(e)} at iteration {i} of fixed point solver ({e}).\"\n        raise ConvergenceError(msg) from e\n    msg = f\"Fixed point iteration did not converge. Last error={error:.1e}.\"\n    raise ConvergenceError(msg)\n\n\ndef solve_fixed_point_steffensen",
     "    except LinAlgError as e:\n        # Make robust to errors in intermediate linear algebra ops\n        msg = f\"{type(e)} at iteration {i} of fixed point solver ({e}).\"\n        raise ConvergenceError(msg) from e\n    msg = f\"Fixed point iteration did not converge. Last error={error:.1e}.\"\n    raise ConvergenceError(msg)\n\n\ndef solve_fixed_point_steffensen",
     ["C12"]),
    ("c12_no_nan_test", "solvers.py",
     "            error = norm(x - x0)\n            if error > divergence_tol or np.isnan(error):\n                msg = (\n                    f\"Fixed point iteration diverged on iteration {i}. \"\n                    f\"Last error={error:.1e}.\"\n                )\n                raise ConvergenceError(msg)\n            if error < convergence_tol:\n                return x\n            x0 = x\n    except (ValueError, LinAlgError) as e:\n        # Make robust to errors in intermediate linear algebra ops\n        msg = f\"{type(e)} at iteration {i} of fixed point solver ({e}).\"\n        raise ConvergenceError(msg) from e\n    msg = f\"Fixed point iteration did not converge. Last error={error:.1e}.\"\n    raise ConvergenceError(msg)\n\n\ndef solve_fixed_point_steffensen",
     "            error = norm(x - x0)\n            if error > divergence_tol:\n                msg = (\n                    f\"Fixed point iteration diverged on iteration {i}. \"\n                    f\"Last error={error:.1e}.\"\n                )\n                raise ConvergenceError(msg)\n            if not error >= convergence_tol:\n                return x\n            x0 = x\n    except (ValueError, LinAlgError) as e:\n        # Make robust to errors in intermediate linear algebra ops\n        msg = f\"{type(e)} at iteration {i} of fixed point solver ({e}).\"\n        raise ConvergenceError(msg) from e\n    msg = f\"Fixed point iteration did not converge. Last error={error:.1e}.\"\n    raise ConvergenceError(msg)\n\n\ndef solve_fixed_point_steffensen",
     ["C12"]),
    ("c13_trace_offset", "samplers.py",
     "                            chain_traces[key][sample_index + sampling_index_offset] = (\n                                val\n                            )",
     "                            chain_traces[key][\n                                max(sample_index + sampling_index_offset - (sampling_index_offset > 0), 0)\n                            ] = val",
     ["C13", "C15"]),
    ("c15_no_flush", "samplers.py",
     "        # flush any updates to memory-mapped chain data to disk before exiting\n        _flush_memmap_chain_data(chain_traces, chain_stats)",
     "        # flush any updates to memory-mapped chain data to disk before exiting\n        pass",
     ["C15", "C13"]),
    ("c16_adapters_in_main_stage", "stagers.py",
     "            sampling_stages[\"Main non-adaptive\"] = ChainStage(\n                n_iter=n_main_iter,\n                adapters=None,\n                trace_funcs=trace_funcs,\n                record_stats=True,\n            )\n        return sampling_stages\n\n\nclass WindowedWarmUpStager",
     "            sampling_stages[\"Main non-adaptive\"] = ChainStage(\n                n_iter=n_main_iter,\n                adapters=adapters if n_warm_up_iter == 7 else None,\n                trace_funcs=trace_funcs,\n                record_stats=True,\n            )\n        return sampling_stages\n\n\nclass WindowedWarmUpStager",
     ["C16"]),
    ("c17_welford_old_mean", "adapters.py",
     "        adapt_state[\"sum_diff_sq\"] += pos_minus_mean * (\n            chain_state.pos - adapt_state[\"mean\"]\n        )",
     "        adapt_state[\"sum_diff_sq\"] += pos_minus_mean * pos_minus_mean * (\n            (adapt_state[\"iter\"] - 1) / adapt_state[\"iter\"]\n        ) * (1 + 1e-4 * (adapt_state[\"iter\"] > 3))",
     ["C17"]),
    ("c18_grad_depends_on_mom", "systems.py",
     "    @cache_in_state_with_aux(\"pos\", \"neg_log_dens\")\n    def grad_neg_log_dens",
     "    @cache_in_state_with_aux((\"pos\", \"mom\"), \"neg_log_dens\")\n    def grad_neg_log_dens",
     ["C18"]),
    ("c18_copy_empty_cache", "states.py",
     "            _cache=self._cache.copy(),", "            _cache={},", ["C18"]),
    ("c19_hash_ignores_lower", "matrices.py",
     "        return hash((self.factor, self.sign))", "        return hash(self.sign)", ["C19"]),
    ("c19_scalar_multiply_in_place", "matrices.py",
     "        return DiagonalMatrix(self.diagonal * scalar)",
     "        d = self.diagonal\n        d.flags.writeable = True\n        d *= scalar\n        d.flags.writeable = False\n        return DiagonalMatrix(d)",
     ["C19", "C10"]),
    ("c20_log_sum_exp_branch", "utils.py",
     "    if val1 > val2:\n        return val1 + log1p_exp(val2 - val1)\n    return val2 + log1p_exp(val1 - val2)",
     "    if val1 > val2:\n        return val1 + log1p_exp(val2 - val1)\n    return val1 + log1p_exp(val2 - val1)",
     ["C20"]),
    ("c14_seed_spawn_same", "samplers.py",
     "        return [default_rng(bit_generator.jumped(i)) for i in range(n_chain)]",
     "        return [default_rng(bit_generator.jumped(i // 2 * 2)) for i in range(n_chain)]",
     ["C14"]),
]


def main():
    names = set(sys.argv[1:])
    log = Path("/verif/seeded/mutants.log")
    for name, fn, old, new, checks in M:
        if names and name not in names:
            continue
        p = R / fn
        src = p.read_text()
        if src.count(old) != 1:
            line = f"{name} - edit-does-not-apply(count={src.count(old)})"
            print(line)
            with log.open("a") as f:
                f.write(line + "\n")
            continue
        p.write_text(src.replace(old, new, 1))
        try:
            comp = subprocess.run(["/venv/bin/python", "-c", "import mici.samplers"],
                                  capture_output=True, text=True,
                                  env={"PYTHONPATH": "/repo/src", "PATH": "/usr/bin:/bin"})
            if comp.returncode != 0:
                line = f"{name} - does-not-import"
                print(line, comp.stderr[-300:])
                with log.open("a") as f:
                    f.write(line + "\n")
                continue
            for c in checks:
                r = subprocess.run(["timeout", "1500", "/verif/check", c, "--tier", "quick"],
                                   capture_output=True, text=True)
                nv = r.stdout.count("\nVIOLATION") + r.stdout.startswith("VIOLATION")
                verdict = "caught" if nv else ("harness-error" if "HARNESS-ERROR" in r.stdout
                                               else "missed")
                line = f"{name} {c} {verdict}"
                print(line, flush=True)
                with log.open("a") as f:
                    f.write(line + "\n")
        finally:
            subprocess.run(["git", "-C", "/repo", "checkout", "--", "."], check=True)


if __name__ == "__main__":
    main()
