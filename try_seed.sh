#!/bin/bash
# usage: try_seed.sh <seed-dir> <PROP> [tier]   - applies patch to /repo, runs check, reverts
D="$1"; P="$2"; T="${3:-quick}"
cd /repo && git apply "$D/patch.diff" || { echo "PATCH DOES NOT APPLY"; exit 3; }
cd /verif && ./check "$P" --tier "$T" 2>&1 | tail -4
git -C /repo checkout -- . && git -C /repo status --short | head -3
