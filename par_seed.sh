#!/bin/bash
# usage: par_seed.sh <seed-name> <check> [<check> ...]
# Tries one seeded change against checks WITHOUT touching /repo: a scratch worktree of /repo HEAD
# with the patch applied, and a scratch output directory (VERIF_SCRATCH_REPO / VERIF_SCRATCH_OUT,
# see mc/runner.py).  Appends "seed check verdict" lines to seeded/matrix.log; removes the worktree.
S="$1"; shift
WT=/tmp/wt/ps_$S; OUTD=/tmp/wt/ps_out_$S
git -C /repo worktree remove --force "$WT" 2>/dev/null; rm -rf "$WT" "$OUTD"
git -C /repo worktree add -q --detach "$WT" HEAD || exit 2
if ! git -C "$WT" apply "/tmp/seeds_inbox/$S/patch.diff"; then
  for P in "$@"; do echo "$S $P harness-error-or-patch-problem" | tee -a /verif/seeded/matrix.log; done
  git -C /repo worktree remove --force "$WT"; exit 3
fi
for P in "$@"; do
  out=$(VERIF_SCRATCH_REPO="$WT" VERIF_SCRATCH_OUT="$OUTD" timeout 1800 /verif/check "$P" --tier "${TIER:-quick}" 2>&1)
  n=$(echo "$out" | grep -c '^VIOLATION')
  h=$(echo "$out" | grep -c 'HARNESS-ERROR')
  if [ "$n" != "0" ]; then v="caught"; elif [ "$h" != "0" ]; then v="harness-error-or-patch-problem"; else v="missed"; fi
  echo "$S $P $v" | tee -a /verif/seeded/matrix.log
  echo "$out" | tail -3 | cut -c1-300 > "/tmp/wt/ps_last_${S}_$P.txt"
done
git -C /repo worktree remove --force "$WT"; rm -rf "$WT" "$OUTD"
