"""C15 - interrupting sampling returns a consistent prefix of the run.

E4 crash-point enumeration: an uninterrupted run of each configuration counts the calls of
neg_log_dens, grad_neg_log_dens and the trace function per chain; then for EVERY (chain, call
index) the run is repeated raising KeyboardInterrupt at that call.  Sequential runs, runs on the
simulated pool (E3, crossed with schedules) and on the real pool; single- and multi-stage;
in-memory and memory-mapped storage.
"""

from __future__ import annotations

import os
import tempfile
import threading
import warnings

import numpy as np

from mc.lattice import replay_lattice, run_lattice

MOD = "mc.props.c15"

_TLS = threading.local()
PLAN = {"target": None, "counts": {}, "fired": None, "after": [], "lock": threading.Lock(),
        "iters": {}, "fired_iter": None}


def current_cid():
    return getattr(_TLS, "cid", None)


class TagTransition:
    """First transition of every iteration: publishes the chain id of the state being sampled to
    the thread / process running the chain."""

    state_variables = {"pos"}
    statistic_types = None

    def sample(self, state, rng):
        _TLS.cid = int(state.cid)
        with PLAN["lock"]:
            PLAN["iters"][_TLS.cid] = PLAN["iters"].get(_TLS.cid, 0) + 1
        return state, None


def _make_adapter_class():
    from mici.adapters import DualAveragingStepSizeAdapter

    class QuietInitAdapter(DualAveragingStepSizeAdapter):
        def initialize(self, chain_state, transition):
            # evaluations made while an adapter is initialised are outside iterations: they
            # are neither counted nor used as interrupt points
            _TLS.cid = None
            return super().initialize(chain_state, transition)

    return QuietInitAdapter


QuietInitAdapter = _make_adapter_class()
QuietInitAdapter.__qualname__ = "QuietInitAdapter"


def _tell_parent(rec):
    """Real process pool: what happens in a worker process is reported to the main process
    through an append-only file (one JSON line per event)."""
    path = PLAN.get("fire_file")
    if path:
        import json
        fd = os.open(path, os.O_WRONLY | os.O_APPEND | os.O_CREAT)
        try:
            os.write(fd, (json.dumps(rec) + "\n").encode())
        finally:
            os.close(fd)


def _hit(fn):
    cid = current_cid()
    if cid is None:
        return
    key = (cid, fn)
    with PLAN["lock"]:
        k = PLAN["counts"].get(key, 0)
        PLAN["counts"][key] = k + 1
        PLAN.setdefault("iter_of", {})[(cid, fn, k)] = PLAN["iters"].get(cid, 0) - 1
        if PLAN["fired"] is not None and PLAN["fired"][0] == cid:
            PLAN["after"].append((cid, fn, k))
            _tell_parent({"after": [cid, fn, k]})
        fire = PLAN["target"] == (cid, fn, k) and PLAN["fired"] is None
        if fire:
            PLAN["fired"] = (cid, fn, k)
            PLAN["fired_iter"] = PLAN["iters"].get(cid, 0) - 1
            _tell_parent({"fired": [cid, fn, k], "fired_iter": PLAN["fired_iter"]})
    if fire:
        if PLAN.get("real_signal"):
            # a real Ctrl-C: SIGINT to the main process and to this worker process.  If the
            # signal is (wrongly) ignored nothing is raised and the callback just returns.
            import signal
            import time
            os.kill(PLAN["main_pid"], signal.SIGINT)
            signal.raise_signal(signal.SIGINT)
            time.sleep(0.3)
            return
        raise KeyboardInterrupt


def nld(q):
    _hit("neg_log_dens")
    return 0.5 * np.sum(q**2) + 0.1 * np.sum(q**4)


def grad_nld(q):
    _hit("grad_neg_log_dens")
    return q + 0.4 * q**3


def trace_fn(state):
    _hit("trace")
    return {"pos": state.pos, "mom": state.mom, "k": int(10 * abs(state.pos[0]))}


def metric_diag(q):
    # position dependent diagonal metric; evaluated inside sample_momentum and inside the steps
    _hit("metric_func@" + getattr(_TLS, "phase", "integration"))
    return 1.0 + 0.5 * np.tanh(q) ** 2


def vjp_metric_diag(q):
    def vjp(v):
        return v * np.tanh(q) * (1.0 - np.tanh(q) ** 2)
    return vjp


class PhaseMomentum:
    """Wraps a momentum transition so that callbacks know they run inside it."""

    def __init__(self, inner):
        self.inner = inner
        self.state_variables = inner.state_variables
        self.statistic_types = inner.statistic_types

    def sample(self, state, rng):
        _TLS.phase = "momentum"
        try:
            return self.inner.sample(state, rng)
        finally:
            _TLS.phase = "integration"


def build_generic_riemannian(cfg):
    import mici
    from mici.states import ChainState

    rng = np.random.default_rng(777 + cfg["seed"])
    system = mici.systems.DiagonalRiemannianMetricSystem(
        nld, metric_diag, grad_neg_log_dens=grad_nld, vjp_metric_diagonal_func=vjp_metric_diag)
    integ = mici.integrators.ImplicitLeapfrogIntegrator(system, step_size=0.2)
    transitions = {
        "tag": TagTransition(),
        "momentum": PhaseMomentum(mici.transitions.CorrelatedMomentumTransition(system, 0.6)),
        "integration_transition": mici.transitions.MetropolisStaticIntegrationTransition(
            system, integ, n_step=1),
    }
    sampler = mici.samplers.MarkovChainMonteCarloMethod(rng, transitions)
    inits = [ChainState(pos=np.array([0.3 * (c + 1), -0.2 + 0.1 * c]),
                        mom=np.array([0.5, -0.1 * (c + 1)]), dir=1, cid=c)
             for c in range(cfg["n_chain"])]
    kw = dict(display_progress=False, trace_funcs=[trace_fn], trace_warm_up=cfg["trace_warm_up"])
    n_warm = 0 if cfg["stages"] == "single" else 2
    kw["adapters"] = {}
    return sampler, inits, n_warm, kw


def build(cfg, memdir=None):
    import mici
    from mici.states import ChainState

    if cfg["sampler"] == "generic_riemannian":
        return build_generic_riemannian(cfg)

    rng = np.random.default_rng(777 + cfg["seed"])
    system = mici.systems.EuclideanMetricSystem(nld, grad_neg_log_dens=grad_nld)
    if cfg.get("integrator") == "implicit_midpoint":
        integ = mici.integrators.ImplicitMidpointIntegrator(system, step_size=0.3)
    else:
        integ = mici.integrators.LeapfrogIntegrator(system, step_size=0.4)
    if cfg["sampler"] == "static":
        sampler = mici.samplers.StaticMetropolisHMC(system, integ, rng, n_step=2)
    else:
        sampler = mici.samplers.DynamicMultinomialHMC(system, integ, rng, max_tree_depth=2)
    sampler._transitions = {"tag": TagTransition(), **sampler.transitions}  # noqa: SLF001
    inits = [ChainState(pos=np.array([0.3 * (c + 1), -0.2 + 0.1 * c]),
                        mom=np.array([0.5, -0.1 * (c + 1)]), dir=1, cid=c)
             for c in range(cfg["n_chain"])]
    kw = dict(display_progress=False, trace_funcs=[trace_fn], trace_warm_up=cfg["trace_warm_up"])
    if cfg["stages"] == "single":
        n_warm, kw["adapters"] = 0, []
    elif cfg["stages"] == "two":
        n_warm, kw["adapters"] = 2, []
    elif cfg["stages"] == "two_none":
        # a warm-up stage without adapters, requested with the documented value None
        n_warm, kw["adapters"] = 2, None
    elif cfg["stages"] == "adaptive_metric":
        # a cross-chain metric adapter: its finalize pools the states of all chains that ran
        n_warm = 3
        kw["adapters"] = [mici.adapters.OnlineVarianceMetricAdapter()]
    else:
        n_warm = 2
        kw["adapters"] = [QuietInitAdapter()]
    if cfg["storage"] == "memmap":
        kw["force_memmap"] = True
        kw["memmap_path"] = memdir
    return sampler, inits, n_warm, kw


# --- write-back model of memory-mapped files --------------------------------------------------
# The operating system's page cache makes un-flushed memmap writes visible to np.load, so a missing
# flush() cannot be seen by reading the file back.  The harness therefore models the device: a
# write through a memmap is durable only once flush() has been called on a memmap of that file.
# State per file: "fill" (only whole-array assignments so far - the initial fill), "dirty" (an
# element / row written since the last flush), "clean".

_REAL_OPEN_MEMMAP = np.lib.format.open_memmap
MEMSTATE = {}


class TrackedMemmap(np.memmap):
    def __setitem__(self, key, value):
        fn = str(getattr(self, "filename", None))
        whole = isinstance(key, slice) and key == slice(None)
        if whole and MEMSTATE.get(fn, "fill") == "fill":
            MEMSTATE[fn] = "fill"
        else:
            MEMSTATE[fn] = "dirty"
        super().__setitem__(key, value)

    def flush(self):
        super().flush()
        MEMSTATE[str(getattr(self, "filename", None))] = "clean"


def _tracked_open_memmap(*a, **k):
    m = _REAL_OPEN_MEMMAP(*a, **k)
    return m.view(TrackedMemmap) if isinstance(m, np.memmap) else m


def run_once(cfg, n_process, target, memdir=None, real_signal=False):
    PLAN["real_signal"] = bool(real_signal)
    PLAN["main_pid"] = os.getpid()
    PLAN["fire_file"] = None
    if cfg["mode"] == "real" and n_process != 1:
        fd, path = tempfile.mkstemp(prefix="c15_events_")
        os.close(fd)
        PLAN["fire_file"] = path
        try:
            res = _run_once(cfg, n_process, target, memdir)
            import json
            for line in open(path).read().splitlines():
                ev = json.loads(line)
                if "fired" in ev and res["fired"] is None:
                    res["fired"] = tuple(ev["fired"])
                    res["fired_iter"] = ev["fired_iter"]
                elif "after" in ev:
                    res["after"].append(tuple(ev["after"]))
            return res
        finally:
            PLAN["fire_file"] = None
            os.unlink(path)
    track = memdir is not None and cfg["mode"] != "real"
    if not track:
        return _run_once(cfg, n_process, target, memdir)
    MEMSTATE.clear()
    np.lib.format.open_memmap = _tracked_open_memmap
    try:
        res = _run_once(cfg, n_process, target, memdir)
    finally:
        np.lib.format.open_memmap = _REAL_OPEN_MEMMAP
    res["memstate"] = {os.path.basename(k): v for k, v in MEMSTATE.items()}
    return res


def _run_once(cfg, n_process, target, memdir=None):
    """Run with an interrupt at `target` (or None).  Returns dict or raises."""
    from mc import explore_sched as ES
    ES.PARENT_FAULT.update(label="iter_queue.get", k=None, count=0, fired=False)
    if target is not None and target[0] == "parent":
        ES.PARENT_FAULT["k"] = target[2]
        target = None
    PLAN["target"] = target
    PLAN["counts"] = {}
    PLAN["iter_of"] = {}
    PLAN["fired"] = None
    PLAN["after"] = []
    PLAN["iters"] = {}
    PLAN["fired_iter"] = None
    _TLS.cid = None
    sampler, inits, n_warm, kw = build(cfg, memdir)
    with warnings.catch_warnings():
        warnings.simplefilter("ignore")
        import logging
        logging.disable(logging.CRITICAL)
        try:
            out = sampler.sample_chains(n_warm, cfg["n_main"], inits, n_process=n_process, **kw)
        finally:
            logging.disable(logging.NOTSET)
    traces = {k: [np.array(a) for a in v] for k, v in out.traces.items()}
    stats_src = out.statistics
    if cfg["sampler"] == "generic_riemannian":
        stats_src = out.statistics["integration_transition"]  # one dict per transition
    stats = {k: [np.array(a) for a in v] for k, v in stats_src.items()}
    finals = [{k: (np.array(v) if isinstance(v, np.ndarray) else v)
               for k, v in s._variables.items()} for s in out.final_states]  # noqa: SLF001
    files = {}
    if memdir is not None:
        for fn in sorted(os.listdir(memdir)):
            if fn.endswith(".npy"):
                files[fn] = np.load(os.path.join(memdir, fn))
    return {"parent_gets": ES.PARENT_FAULT["count"], "parent_fired": ES.PARENT_FAULT["fired"],
            "traces": traces, "stats": stats, "finals": finals, "files": files,
            "iter_of": dict(PLAN["iter_of"]),
            "counts": dict(PLAN["counts"]), "fired": PLAN["fired"], "after": list(PLAN["after"]),
            "n_warm": n_warm, "fired_iter": PLAN["fired_iter"]}


def is_fill(arr_row, dtype_kind, default=None):
    a = np.asarray(arr_row)
    if default is not None:
        if isinstance(default, float) and default != default:
            return bool(np.all(np.isnan(a)))
        return bool(np.all(a == default))
    if dtype_kind == "f":
        return bool(np.all(np.isnan(a)))
    return bool(np.all(a == 0))


STAT_FILL = {"n_step": -1, "accept_stat": float("nan"), "non_reversible_step": False,
             "convergence_error": False, "step_size": float("nan"),
             "metrop_accept_prob": float("nan"), "av_metrop_accept_prob": float("nan"),
             "reject_prob": float("nan"), "tree_depth": -1, "diverging": False}


def judge_parent(cfg, ref, res, acc, viol):
    """Interrupt delivered to the main process only: the workers are not disturbed, so every chain
    holds a consistent prefix (rows equal to the reference, then only fill values), whole stages
    are either complete for all chains or not started, and final states are recorded states."""
    if not res["parent_fired"]:
        return "not_reached"
    arrays = [("trace:" + key, ref["traces"][key], res["traces"][key], None)
              for key in ref["traces"]] + \
             [("stat:" + key, ref["stats"][key], res["stats"][key], STAT_FILL.get(key))
              for key in ref["stats"]]
    n_rows = len(next(iter(ref["traces"].values()))[0])
    for c in range(cfg["n_chain"]):
        seen_fill = False
        for r in range(n_rows):
            same = all(np.array_equal(xa[c][r], ra[c][r], equal_nan=True)
                       for _, ra, xa, _ in arrays)
            fill = all(is_fill(xa[c][r], xa[c].dtype.kind, d) for _, _, xa, d in arrays)
            if not same and not fill:
                viol("parent_interrupt:row_neither_reference_nor_fill", {"chain": c, "row": r},
                     "prefix of the uninterrupted run")
                return "violation"
            if seen_fill and not fill:
                viol("parent_interrupt:row_written_after_a_gap", {"chain": c, "row": r},
                     "prefix of the uninterrupted run")
                return "violation"
            seen_fill = seen_fill or (fill and not same)
    for c, fin in enumerate(res["finals"]):
        pos = np.asarray(fin["pos"])
        if not np.all(np.isfinite(pos)):
            viol("parent_interrupt:final_state_not_finite", pos, "valid chain state", chain=c)
            return "violation"
    acc.count("verdict_ok_parent")
    return "ok"


def judge(cfg, ref, res, target, mode, acc, viol):
    """Compare an interrupted run with the uninterrupted reference."""
    if target[0] == "parent":
        return judge_parent(cfg, ref, res, acc, viol)
    cid, fn, k = target
    n_chain = cfg["n_chain"]
    n_rows = len(next(iter(ref["traces"].values()))[0])
    if res["fired"] is None:
        return "not_reached"
    # rows of the interrupted chain
    arrays = [("trace:" + key, ref["traces"][key], res["traces"][key], None)
              for key in ref["traces"]] + \
             [("stat:" + key, ref["stats"][key], res["stats"][key], STAT_FILL.get(key))
              for key in ref["stats"]]
    # find the row in progress: first row of chain cid where any array deviates from reference
    def row_state(c, r):
        kinds = set()
        for name, ra, xa, default in arrays:
            x, y = xa[c][r], ra[c][r]
            same = np.array_equal(x, y, equal_nan=True)
            fill = is_fill(x, xa[c].dtype.kind, default)
            if same and fill:
                kinds.add("ambiguous")  # true value coincides with the fill value
            else:
                kinds.add("true" if same else ("fill" if fill else "garbage"))
        return kinds

    n_warm = ref["n_warm"]
    twu = cfg["trace_warm_up"]
    j = res["fired_iter"]  # global iteration index (over all stages) of the interrupt
    stage = 0 if j < n_warm else 1
    offset = 0 if twu else n_warm
    blocks = []  # (stage, first_row, last_row_exclusive)
    if twu and n_warm:
        blocks.append((0, 0, n_warm))
    blocks.append((1, (n_warm if twu else 0), n_rows))
    in_progress = j - offset if j - offset >= 0 else None

    def all_true(c, lo, hi):
        return all(not (row_state(c, r) & {"fill", "garbage"}) for r in range(lo, hi))

    def all_fill(c, lo, hi):
        return all(not (row_state(c, r) - {"fill", "ambiguous"}) for r in range(lo, hi))

    for c in range(n_chain):
        for (st, lo, hi) in blocks:
            if st < stage:
                if not all_true(c, lo, hi):
                    viol("completed_stage_rows_differ", {"chain": c, "stage": st},
                         "identical to uninterrupted run")
                    return "violation"
            elif st > stage:
                if not all_fill(c, lo, hi):
                    viol("later_stage_rows_written", {"chain": c, "stage": st},
                         "rows not reached keep their fill values (later stages not started)")
                    return "violation"
            elif c == cid:
                if not all_true(c, lo, in_progress):
                    viol("rows_before_interrupt_differ", {"chain": c},
                         "identical to uninterrupted run")
                    return "violation"
                if "garbage" in row_state(c, in_progress):
                    viol("row_in_progress_is_neither_fill_nor_true_value",
                         {"chain": c, "row": in_progress}, "fill or true value, array by array")
                    return "violation"
                if not all_fill(c, in_progress + 1, hi):
                    viol("row_written_after_interrupt", {"chain": c},
                         "rows not reached keep their fill values")
                    return "violation"
            elif mode == "sequential":
                ok = all_true(c, lo, hi) if c < cid else all_fill(c, lo, hi)
                if not ok:
                    viol("finished_chain_affected" if c < cid else "unstarted_chain_written",
                         {"chain": c}, "complete if before, untouched if after the interrupted "
                                       "chain")
                    return "violation"
            else:
                # other chains of a parallel run finish the stage (or are a consistent prefix)
                seen_fill = False
                for r in range(lo, hi):
                    ks = row_state(c, r)
                    if "garbage" in ks and (ks & {"true"}) and seen_fill:
                        viol("other_chain_not_a_prefix", {"chain": c, "row": r}, "prefix")
                        return "violation"
                    if ks & {"fill"} and not (ks & {"true"}):
                        seen_fill = True
                    elif seen_fill and (ks & {"true"}):
                        viol("other_chain_not_a_prefix", {"chain": c, "row": r}, "prefix")
                        return "violation"
    # no callback call in the interrupted chain after the interrupt (no later stage started)
    if res["after"]:
        viol("callbacks_after_interrupt", res["after"][:5],
             "no further evaluation for the interrupted chain (later stages not started)")
        return "violation"
    # final states: valid chain states, equal to a state the reference run passed through
    for s in res["finals"]:
        for key in ("pos", "mom"):
            if key not in s or s[key] is None or not np.all(np.isfinite(s[key])):
                viol("final_state_invalid", {k2: str(v)[:40] for k2, v in s.items()},
                     "finite pos/mom")
                return "violation"
    order = [int(s["cid"]) for s in res["finals"]]
    if order != list(range(len(order))) or cid >= len(order):
        viol("final_states_misaligned_or_missing", order,
             "final_states[i] belongs to chain i and includes the interrupted chain")
        return "violation"
    by_cid = {int(s["cid"]): s for s in res["finals"]}
    if str(fn).endswith("@momentum") and cid in by_cid and (cfg["trace_warm_up"]
                                                            or ref["n_warm"] == 0):
        # interrupted INSIDE the momentum transition: no transition of the iteration in progress
        # has completed, so the returned state is exactly (position AND momentum) the state
        # after the previous iteration - or the initial state
        if in_progress is not None and in_progress > 0:
            wantq = ref["traces"]["pos"][cid][in_progress - 1]
            wantp = ref["traces"]["mom"][cid][in_progress - 1]
        else:
            wantq = np.array([0.3 * (cid + 1), -0.2 + 0.1 * cid])
            wantp = np.array([0.5, -0.1 * (cid + 1)])
        got = by_cid[cid]
        if not (np.array_equal(got["pos"], wantq) and np.array_equal(got["mom"], wantp)):
            viol("final_state_half_updated_by_interrupted_momentum_transition",
                 [got["pos"], got["mom"]], [wantq, wantp], chain=cid)
            return "violation"
    if cid in by_cid and in_progress is not None and in_progress < n_rows:
        # position is the traced position of the last completed iteration (or the initial one)
        fin = by_cid[cid]["pos"]
        twu = cfg["trace_warm_up"]
        cands = [ref["traces"]["pos"][cid][r] for r in range(n_rows)]
        init = np.array([0.3 * (cid + 1), -0.2 + 0.1 * cid])
        cands.append(init)
        if twu or ref["n_warm"] == 0:
            prev = ref["traces"]["pos"][cid][in_progress - 1] if in_progress > 0 else init
            # interrupted inside a transition: state after the last completed iteration;
            # interrupted in the trace function: all transitions of the iteration in progress
            # completed, so its post-transition state is returned
            cur = ref["traces"]["pos"][cid][in_progress]
            if not (np.array_equal(fin, prev) or np.array_equal(fin, cur)):
                viol("final_state_not_last_completed_transition", fin, [prev, cur], chain=cid)
                return "violation"
    blk = [b for b in blocks if b[0] == stage]
    for c, s in by_cid.items():
        if c != cid and mode == "sequential" and c < cid and blk:
            want = ref["traces"]["pos"][c][blk[0][2] - 1]  # end of the interrupted stage
            if not np.array_equal(s["pos"], want):
                viol("finished_chain_final_state_differs", s["pos"], want, chain=c)
                return "violation"
    # write-back model: nothing written since the last flush() of its file
    ms = res.get("memstate")
    if ms is not None:
        acc.count("memmap_files_tracked", len(ms))
        dirty = sorted(k for k, v in ms.items() if v == "dirty")
        if dirty:
            viol("memmap_written_after_last_flush", dirty, "every written file flushed")
            return "violation"
    # memmap files on disk equal the returned arrays
    for fname, arr in res["files"].items():
        parts = fname[:-4].split("_")
        kind, c = parts[0], int(parts[1])
        key = "_".join(parts[2:])
        if kind == "trace":
            want = res["traces"].get(key)
        else:
            want = res["stats"].get(key.replace("integration_transition_", ""))
        if want is not None and not np.array_equal(arr, want[c], equal_nan=True):
            viol("npy_file_differs_from_returned_array", fname, "flushed to disk")
            return "violation"
    return "ok"


def crash_points(ref, cfg):
    pts = []
    if cfg["mode"] == "simulated":
        # SIGINT delivered to the main process at each of its blocking waits for progress
        pts += [("parent", "iter_queue.get", k) for k in range(ref.get("parent_gets", 0))]
    for (cid, fn), n in sorted(ref["counts"].items()):
        for k in range(n):
            pts.append((cid, fn, k))
    return pts


def check_config(cfg, acc):
    from mc.runner import WatchdogTimeout, run_with_alarm

    mode = cfg["mode"]
    F = {"mode": mode, "stages": cfg["stages"], "storage": cfg["storage"]}

    def mkviol(target):
        def viol(what, obs, exp, **kw):
            acc.violation(driver="interrupt", config=dict(cfg, target=list(target)),
                          fields={**F, "what": what, "callback": target[1]},
                          kind="inconsistent_prefix", observed=obs, expected=exp,
                          target=list(target), **kw)
        return viol

    n_process = 1 if mode == "sequential" else cfg["n_process"]

    def execute(target, ctx=None):
        memdir = tempfile.mkdtemp() if cfg["storage"] == "memmap" else None
        try:
            if mode == "simulated":
                from mc.explore_choice import Ctx
                from mc.explore_sched import run_schedule
                status, val, sched = run_schedule(ctx or Ctx([]),
                                                  lambda: run_once(cfg, n_process, target,
                                                                   memdir))
                return status, val
            if mode == "real":
                try:
                    return "ok", run_with_alarm(120, run_once, cfg, n_process, target, memdir)
                except WatchdogTimeout as e:
                    return "hang", str(e)
            return "ok", run_once(cfg, n_process, target, memdir)
        except BaseException as e:  # noqa: BLE001
            return "exc", e
        finally:
            if memdir:
                import shutil
                shutil.rmtree(memdir, ignore_errors=True)

    if mode == "real":
        # call counts (the interrupt points) are made in the worker processes: the reference -
        # rows, final states, per-chain call counts - is the sequential run, which by C14 equals
        # the parallel one
        try:
            status, ref = "ok", run_once(cfg, 1, None, None)
        except BaseException as e:  # noqa: BLE001
            status, ref = "exc", e
    else:
        status, ref = execute(None)
    if status != "ok":
        acc.violation(driver="interrupt", config=cfg, fields={**F, "what": "reference_run_failed",
                                                             "callback": None},
                      kind="inconsistent_prefix", observed=str(ref)[:200], expected="returns")
        return
    if ref.get("memstate") is not None:
        dirty = sorted(k for k, v in ref["memstate"].items() if v == "dirty")
        if dirty:
            acc.violation(driver="interrupt", config=cfg,
                          fields={**F, "what": "uninterrupted_run_leaves_memmap_unflushed",
                                  "callback": None},
                          kind="inconsistent_prefix", observed=dirty, expected="all flushed")
            return
    pts = crash_points(ref, cfg)
    if mode == "real" and ref["n_warm"]:
        # every stage of a real multi-process run has its own freshly forked workers, whose call
        # counters start again: only interrupt points of the first stage can be addressed
        # (the later stages are covered by the simulated pool)
        n_all = len(pts)
        pts = [t for t in pts if ref["iter_of"].get(tuple(t), 0) < ref["n_warm"]]
        acc.count("real_points_beyond_first_stage_not_addressable", n_all - len(pts))
    acc.count("crash_points", len(pts))
    for target in pts:
        viol = mkviol(target)
        if mode == "simulated" and cfg.get("bound", 0) > 0:
            from mc.explore_choice import explore

            def run(ctx, target=target):
                return execute(target, ctx)

            def on_leaf(ctx, r, target=target, viol=viol):
                acc.count("evaluations")
                _judge_one(cfg, ref, r, target, mode, acc, viol, ctx.choices)

            from mc.explore_choice import Divergence

            for attempt in range(3):
                try:
                    res = explore(run, on_leaf, bound=cfg["bound"],
                                  max_leaves=cfg.get("max_leaves", 200))
                    if res["capped"]:
                        acc.count("interrupt_points_with_capped_schedule_exploration")
                    acc.count("schedules", res["leaves"])
                    break
                except Divergence as e:
                    # a replayed prefix behaved differently from the execution that produced
                    # it: the harness's own nondeterminism (seen rarely under heavy machine
                    # load).  The exploration of this interrupt point is repeated from scratch;
                    # three divergences in a row are a hard error.
                    acc.count("divergence_retries")
                    acc.notes["last_divergence"] = str(e)[:400]
                    if attempt == 2:
                        raise
        else:
            acc.count("evaluations")
            _judge_one(cfg, ref, execute(target), target, mode, acc, viol, None)
    if mode == "real":
        # the same interrupt points of the trace function, delivered as REAL signals (SIGINT to
        # the main process and to the worker).  A KeyboardInterrupt landing inside CPython's
        # multiprocessing / pickling machinery can corrupt the interpreter itself (seen: a
        # segmentation fault during garbage collection), so every such run happens in a
        # throw-away interpreter; a crashed or silent child is "inconclusive", never a violation.
        # OS timing cannot be replayed: a violation is recorded only when three consecutive
        # children give the same verdict.
        import json
        import subprocess
        import sys
        for target in [t for t in pts if t[1] == "trace"]:
            acc.count("evaluations")
            acc.count("real_signal_points")
            verdicts = []
            for _ in range(3):
                try:
                    out = subprocess.run(
                        [sys.executable, "-c",
                         "import sys, json; from mc.props import c15; "
                         "c15.signal_probe_main(json.loads(sys.argv[1]), json.loads(sys.argv[2]))",
                         json.dumps(cfg), json.dumps(list(target))],
                        capture_output=True, text=True, timeout=180, check=False)
                    lines = [ln for ln in out.stdout.splitlines() if ln.startswith("VERDICT ")]
                    v = json.loads(lines[-1][8:]) if lines else {"inconclusive": out.returncode}
                except subprocess.TimeoutExpired:
                    v = {"verdict": "real_signal:hang"}
                acc.count("real_signal_runs")
                if "inconclusive" in v:
                    acc.count("real_signal_inconclusive")
                    verdicts.append("?inconclusive")
                    continue
                verdicts.append(v["verdict"])
                if v["verdict"] is None:
                    break
            if len(verdicts) == 3 and len(set(verdicts)) == 1 and \
                    verdicts[0] not in (None, "?inconclusive"):
                mkviol(target)(verdicts[0], "three consecutive runs", "consistent prefix",
                               no_confirm=True)
            else:
                acc.count("verdict_ok_real_signal")
    acc.count("cases")
    if len(acc.samples) < 3:
        acc.sample({"config": cfg, "crash_points": len(pts), "example": list(pts[:3])})


def signal_probe_main(cfg, target):
    """Child interpreter: sequential reference, then ONE real-pool run in which the interrupt
    point sends real SIGINTs; prints `VERDICT {"verdict": <what or null>}`."""
    import json
    import signal
    from mc.runner import Acc, WatchdogTimeout, run_with_alarm

    target = tuple(target)
    ref = run_once(cfg, 1, None, None)
    old_handler = signal.getsignal(signal.SIGINT)
    seen = []
    try:
        try:
            r = ("ok", run_with_alarm(120, run_once, cfg, cfg["n_process"], target, None, True))
        except WatchdogTimeout as e:
            r = ("hang", str(e))
        except BaseException as e:  # noqa: BLE001
            r = ("exc", e)
        handler_after = signal.getsignal(signal.SIGINT)
        signal.signal(signal.SIGINT, old_handler)

        def collect(what, obs, exp, **kw):
            seen.append("real_signal:" + what)

        if r[0] == "ok" and r[1]["fired"] is None:
            seen.append("real_signal:interrupt_point_not_reached")
        elif r[0] == "ok" and handler_after == signal.SIG_IGN:
            seen.append("real_signal:sigint_left_ignored_in_main_process")
        else:
            _judge_one(cfg, ref, r, target, "real", Acc(), collect, None)
    except KeyboardInterrupt:
        # a late signal reached the harness itself: this run says nothing
        print("VERDICT " + json.dumps({"inconclusive": "late_signal"}), flush=True)
        return
    print("VERDICT " + json.dumps({"verdict": seen[0] if seen else None}), flush=True)


def _judge_one(cfg, ref, r, target, mode, acc, viol, schedule):
    status, res = r
    if status == "hang":
        viol("hang", str(res)[:200], "call returns", schedule=schedule)
        return
    if status == "exc":
        viol("raises:" + type(res).__name__, repr(res)[:200], "call returns normally",
             schedule=schedule)
        return
    verdict = judge(cfg, ref, res, target, mode, acc, viol)
    acc.count("verdict_" + verdict)
    if verdict == "ok":
        acc.outcome((mode, cfg["stages"], cfg["storage"], cfg["n_chain"], tuple(target)))


def configs(tier, seed):
    cfgs = []
    quick = tier == "quick"
    for stages in ("single", "two", "adaptive"):
        for storage in ("memory", "memmap"):
            for n_chain in (1, 2, 3):
                for twu in (True, False):
                    if quick and ((n_chain == 3 and storage == "memmap") or
                                  (not twu and stages == "single")):
                        continue
                    for sampler in ("static",) if quick else ("static", "multinomial"):
                        base = {"stages": stages, "storage": storage, "n_chain": n_chain,
                                "n_main": 2, "trace_warm_up": twu, "sampler": sampler,
                                "seed": seed}
                        cfgs.append(dict(base, mode="sequential"))
                        if n_chain == 1 and storage == "memory" and twu:
                            # interrupts arriving inside the fixed-point iteration of an
                            # implicit integrator
                            cfgs.append(dict(base, mode="sequential",
                                             integrator="implicit_midpoint"))
                        if n_chain >= 2:
                            cfgs.append(dict(base, mode="simulated", n_process=2,
                                             bound=0 if (quick or n_chain == 3) else 1,
                                             max_leaves=60))
                        if n_chain == 2 and storage == "memory" and twu and \
                                (not quick or stages != "two"):
                            cfgs.append(dict(base, mode="real", n_process=2))
    # a generic sampler: correlated momentum refresh + implicit leapfrog on a Riemannian system;
    # the metric function is user code that runs inside the momentum transition as well
    for stages in ("single", "two"):
        for n_chain in (1, 2):
            cfgs.append({"stages": stages, "storage": "memory", "n_chain": n_chain, "n_main": 2,
                         "trace_warm_up": True, "sampler": "generic_riemannian", "seed": seed,
                         "mode": "sequential"})
    for n_chain in (1, 2):
        base = {"stages": "two_none", "storage": "memory", "n_chain": n_chain, "n_main": 2,
                "trace_warm_up": True, "sampler": "static", "seed": seed}
        cfgs.append(dict(base, mode="sequential"))
        if n_chain == 2:
            cfgs.append(dict(base, mode="simulated", n_process=2, bound=0, max_leaves=60))
    for n_chain in (2, 3):
        for twu in (True, False):
            base = {"stages": "adaptive_metric", "storage": "memory", "n_chain": n_chain,
                    "n_main": 2, "trace_warm_up": twu, "sampler": "static", "seed": seed}
            cfgs.append(dict(base, mode="sequential"))
            if not quick or twu:
                cfgs.append(dict(base, mode="simulated", n_process=2, bound=0, max_leaves=60))
    return cfgs


def run(tier, seed, acc):
    cfgs = configs(tier, seed)
    cfgs.sort(key=lambda c: {"real": 0, "simulated": 1, "sequential": 2}[c["mode"]])
    run_lattice(MOD, cfgs, acc, shards_per_worker=8)
    c = acc.counts
    cov = {
        "evaluations": c.get("evaluations", 0),
        "distinct_nontrivial": len(acc.outcomes),
        "rule": "every (chain, call index) of neg_log_dens / grad_neg_log_dens / trace function "
                "observed in an uninterrupted run is used as an interrupt point; configurations: "
                "sequential / simulated pool (E3) / real pool x single, two-stage, adaptive "
                "two-stage x memory / memmap (user directory) x 1..3 chains x trace_warm_up; "
                "memmap runs (sequential and simulated pool) use a write-back device model: a "
                "write through a memmap is durable only after flush() on that file, and no file "
                "may be left written-but-unflushed at return; "
                "non-trivial = distinct (configuration, interrupt point) pairs judged consistent",
        # interrupt points: all; schedules of the simulated pool at preemption bound 0: all; at
        # bound 1 (thorough) the exploration of one interrupt point is cut at max_leaves schedules
        "exhaustive": c.get("interrupt_points_with_capped_schedule_exploration", 0) == 0,
        "caps_hit": (["max_leaves"] if c.get("interrupt_points_with_capped_schedule_exploration")
                     else []),
        "schedules": c.get("schedules", 0),
        "bounds": {"configs": len(cfgs), "crash_points": c.get("crash_points", 0),
                   "schedule_exploration_capped_at_points":
                       c.get("interrupt_points_with_capped_schedule_exploration", 0),
                   "memmap_files_tracked": c.get("memmap_files_tracked", 0),
                   "verdicts": {k: v for k, v in c.items() if k.startswith("verdict_")}},
    }
    return cov, ["the interrupt is raised by the harness's callback in the thread/process that "
                 "runs the chain (where a real SIGINT is delivered to the user code)",
                 "write-back model: the initial whole-array fill written by the parent process is "
                 "not required to be flushed (only element / row writes are); real-pool runs "
                 "are judged by reading the files back only",
                 "the row of the iteration in progress may hold, array by array, either the fill "
                 "value or the true value"]


def replay(rec):
    return replay_lattice(MOD, rec)
