"""C18 - memoisation delivers its efficiency contract.

Same world and explorer as C09, different observable: every user callback is wrapped by a counter.
(A) In every distinct state of the BFS, for every cached method: a repeat call, a call on a copy and
a call after assigning only variables the method does not depend on evaluate no user function; when
a derivative callback returns lower-order values, the lower-order methods then cost nothing.
(B) Trajectories: explicit integrators evaluate the gradient at most once per new position (n + 1
for leapfrog); through every transition type, over ALL random outcomes (E1), a transition started
from a state whose gradient is cached evaluates the gradient exactly once per successful step.
"""

from __future__ import annotations

import numpy as np

from mc import cacheworld as cw
from mc.explore_bfs import bfs
from mc.explore_choice import explore
from mc.script_rng import ChoiceRng

MOD = "mc.props.c18"

AUX = {
    "grad_neg_log_dens": ["neg_log_dens"],
    "jacob_constr": ["constr"],
    "mhp_constr": ["jacob_constr", "constr"],
    "vjp_metric_func": ["metric_func"],
    "hess_neg_log_dens": ["grad_neg_log_dens", "neg_log_dens"],
    "mtp_neg_log_dens": ["hess_neg_log_dens", "grad_neg_log_dens", "neg_log_dens"],
}
AUX_SOFTABS_VJP = ["hess_neg_log_dens", "grad_neg_log_dens", "neg_log_dens", "metric_func"]


def build_factory(spec, conv, d):
    def build(hist):
        w = cw.World(spec, conv, d)
        for op in hist:
            try:
                w.apply(op)
            except Exception as e:  # noqa: BLE001
                w.failed = (op, type(e).__name__, repr(e)[:200])
                break
        return w
    return build


def make_invariant(spec, conv, d, acc, cfg, build):
    def invariant(w0, hist):
        acc.count("states_checked")
        if w0.failed is not None:
            return
        cached = [m for m in w0.methods if m in cw.DEPENDS]
        for sid in sorted(w0.states):
            for m in cached:
                w = build(hist)  # fresh world: the sub-check mutates it
                system = w.systems["A"]
                cnt = w.counters["A"]
                st = w.states[sid]
                fn = getattr(system, m)
                F = {"class": type(system).__name__, "method": m}

                def viol(clause, extra, F=F, sid=sid):
                    acc.violation(driver="bfs", config=cfg, fields={**F, "clause": clause},
                                  kind="user_function_re_evaluated", observed=extra,
                                  expected="no user function evaluated", history=hist, state=sid)

                try:
                    if m in w.valid.get(sid, ()):
                        # reference model: requested (or returned by a derivative callback)
                        # since pos was last assigned on this state or on the one it copies
                        acc.count("clause_checks")
                        acc.count("model_valid_checks")
                        cb = cnt.total()
                        fn(st)
                        if cnt.total() != cb:
                            viol("value_the_history_already_paid_for", cnt.total() - cb)
                            continue
                    fn(st)
                    c0 = cnt.total()
                    if not st._read_only:  # noqa: SLF001
                        # copies keep the value whatever is assigned to the original afterwards
                        w2 = build(hist)
                        sys2, cnt2, st2 = w2.systems["A"], w2.counters["A"], w2.states[sid]
                        getattr(sys2, m)(st2)
                        cps = [st2.copy(), st2.copy(read_only=True)]
                        st2.pos = cw.VALS[d]["pos"][1].copy() + 0.375
                        st2.mom = cw.VALS[d]["mom"][1].copy() - 0.375
                        c2 = cnt2.total()
                        bad2 = None
                        for k2, cp2 in enumerate(cps):
                            acc.count("clause_checks")
                            getattr(sys2, m)(cp2)
                            if cnt2.total() != c2:
                                bad2 = ("copy", "read_only_copy")[k2]
                                break
                        if bad2:
                            viol("call_on_" + bad2 + "_after_original_reassigned",
                                 cnt2.total() - c2)
                            continue
                    acc.count("clause_checks")
                    fn(st)
                    if cnt.total() != c0:
                        viol("repeat_call", cnt.total() - c0)
                        continue
                    cp = st.copy()
                    acc.count("clause_checks")
                    fn(cp)
                    if cnt.total() != c0:
                        viol("call_on_copy", cnt.total() - c0)
                        continue
                    if m in AUX and cw.callback_conv(conv, m) == "with_value":
                        aux = AUX.get(m, [])
                        if m == "vjp_metric_func" and spec == "softabs_riemannian":
                            aux = AUX_SOFTABS_VJP
                        if conv != "with_value":
                            # mixed conventions: only what this callback itself returns
                            aux = [] if m == "vjp_metric_func" and spec == "softabs_riemannian" \
                                else cw.AUX_RETURNS[m]
                        bad = None
                        for a in aux:
                            if a not in w.methods:
                                continue
                            acc.count("clause_checks")
                            getattr(system, a)(st)
                            if cnt.total() != c0:
                                bad = a
                                break
                        if bad:
                            viol("lower_order_after_derivative:" + bad, cnt.total() - c0)
                            continue
                    if not st._read_only:  # noqa: SLF001
                        for var in ("mom", "dir"):
                            if var in cw.DEPENDS[m]:
                                continue
                            if var == "mom":
                                st.mom = cw.VALS[d]["mom"][1].copy() + 0.125
                            else:
                                st.dir = -st.dir
                        acc.count("clause_checks")
                        fn(st)
                        if cnt.total() != c0:
                            viol("after_assigning_independent_variable", cnt.total() - c0)
                            continue
                    acc.outcome((spec, conv, m, sid, hash(str(hist))))
                except Exception as e:  # noqa: BLE001
                    if type(e).__name__ == "ReadOnlyStateError":
                        continue
                    acc.violation(driver="bfs", config=cfg,
                                  fields={**F, "clause": "exception:" + type(e).__name__},
                                  kind="exception", observed=repr(e)[:200], expected="value",
                                  history=hist, state=sid)
    return invariant


def explore_class(cfg, acc):
    spec, conv, d, depth = cfg["spec"], cfg["conv"], cfg["d"], cfg["depth"]
    build = build_factory(spec, conv, d)
    inv = make_invariant(spec, conv, d, acc, cfg, build)

    def enabled(w, hist):
        if w.failed is not None:
            return []
        ops = w.enabled_ops()
        if not hist and cfg.get("first_op") is not None:
            # the deep exploration of one class is split over shards by its first operation
            # (deduplication then happens within a shard only: more work in total, all of it
            # parallel)
            return ops[cfg["first_op"]:cfg["first_op"] + 1]
        return ops

    def canon18(w):
        # the reference model's validity sets are part of the state: two histories with the same
        # real cache but different obligations are both checked
        return (cw.canon(w), tuple((k, tuple(sorted(v))) for k, v in sorted(w.valid.items())))

    res = bfs(build, enabled, canon18, inv, depth, invariant_new_only=True)
    acc.count("states", res["states"])
    acc.count("transitions", res["transitions"])
    if len(acc.samples) < 2:
        acc.sample({"config": cfg, "states": res["states"], "transitions": res["transitions"]})


# ---------------------------------------------------------------------------------------------
# (B) trajectories
# ---------------------------------------------------------------------------------------------


def grad_positions(cnt):
    return [p for n, p in cnt.log if n == "grad_neg_log_dens"]


def check_trajectories(cfg, acc):
    from mici import integrators as I
    from mici.states import ChainState

    d = 2
    spec_cfg = dict(cw.SYSTEM_SPECS)[cfg["spec"]]
    conv = cfg["conv"]
    rec = cfg["integrator"]
    for n in range(1, 9):
        system, cnt = cw.build_system(spec_cfg, conv, d)
        from mc import izoo
        integ = izoo.build_integrator(rec, system, 0.1)
        if any(abs(c) < 1e-12 for c in getattr(integ, "coefficients", [])):
            # a zero-length component flow re-assigns an unchanged position: the position is
            # "new" for the cache although numerically equal; not judged
            acc.count("not_applicable_zero_length_flow")
            return
        q0, p0 = cw.VALS[d]["pos"][0].copy(), cw.VALS[d]["mom"][0].copy()
        if spec_cfg["family"] in ("constrained", "gaussian_constrained"):
            from mc import zoo
            con = zoo.Constraint(spec_cfg["constraint"], d, 0)
            Md = {nm: dn for nm, _, dn in zoo.constant_metrics(d, 0)}[spec_cfg["metric"]]
            Mi = np.linalg.inv(Md)
            q0 = con.project(q0, Mi)
            p0 = con.project_mom(q0, p0, Mi)
        st = ChainState(pos=q0, mom=p0, dir=1)
        x = st
        acc.count("evaluations")
        try:
            for _ in range(n):
                x = integ.step(x)
        except Exception as e:  # noqa: BLE001
            if type(e).__name__ in ("ConvergenceError", "NonReversibleStepError"):
                acc.count("trajectory_step_refused")
                continue
            raise
        pos = grad_positions(cnt)
        F = {"class": type(system).__name__, "method": rec[0], "clause": "trajectory"}
        if len(pos) != len(set(pos)):
            acc.violation(driver="trajectory", config=cfg, fields=F,
                          kind="gradient_evaluated_twice_at_a_position",
                          observed={"calls": len(pos), "distinct_positions": len(set(pos))},
                          expected="at most one evaluation per position", n=n)
            return
        if rec[0] in ("leapfrog", "constrained_leapfrog") and len(pos) != n + 1:
            # constrained leapfrog: documented - dh1_dpos is not evaluated during the inner
            # h2_flow steps, whatever n_inner_step is
            acc.violation(driver="trajectory", config=cfg, fields=F,
                          kind="gradient_count", observed=len(pos), expected=n + 1, n=n)
            return
        if rec[0] == "constrained_leapfrog" and "mhp_constr" in cnt.n and \
                cnt.n["mhp_constr"] != n + 1:
            acc.violation(driver="trajectory", config=cfg, fields={**F, "callback": "mhp_constr"},
                          kind="gradient_count", observed=cnt.n["mhp_constr"], expected=n + 1,
                          n=n)
            return
        acc.outcome(("traj", cfg["spec"], conv, str(rec), n, len(pos)))


def check_transitions(cfg, acc):
    """E1 over all random outcomes of a transition from a state whose gradient is cached."""
    from mici import transitions as T
    from mici.states import ChainState
    from mc import izoo

    d = 2
    spec_cfg = dict(cw.SYSTEM_SPECS)[cfg["spec"]]
    conv = cfg["conv"]
    kind = cfg["transition"]
    F = {"class": cfg["spec"], "method": kind, "clause": "transition"}
    worst = {"dup": None}

    def run(ctx):
        system, cnt = cw.build_system(spec_cfg, conv, d)
        integ = izoo.build_integrator(cfg["integrator"], system, cfg["eps"])
        if kind == "static":
            tr = T.MetropolisStaticIntegrationTransition(system, integ, 3)
        elif kind == "random":
            tr = T.MetropolisRandomIntegrationTransition(system, integ, (1, 4))
        elif kind == "multinomial":
            tr = T.MultinomialDynamicIntegrationTransition(system, integ,
                                                           max_tree_depth=cfg["depth"])
        else:
            tr = T.SliceDynamicIntegrationTransition(system, integ,
                                                     max_tree_depth=cfg["depth"])
        st = ChainState(pos=cw.VALS[d]["pos"][0].copy(), mom=cw.VALS[d]["mom"][0].copy(), dir=1)
        system.grad_neg_log_dens(st)  # as from the second iteration on: gradient cached
        system.h(st)
        cnt.log.clear()
        cnt.n.clear()
        thr = ()
        if kind == "slice":
            # thresholds for the slice level: energies of the states reachable within the tree
            h0 = float(system.h(st))
            hs = []
            for direction in (1, -1):
                x = st.copy()
                x.dir = direction
                for _ in range(2 ** cfg["depth"]):
                    x = integ.step(x)
                    hs.append(float(system.h(x)))
            thr = [h0 - h for h in hs]
            cnt.log.clear()
            cnt.n.clear()
        rng = ChoiceRng(ctx, thr)
        new, stats = tr.sample(st, rng)
        pos = grad_positions(cnt)
        return {"n_step": int(stats["n_step"]), "calls": len(pos), "distinct": len(set(pos))}

    def on_leaf(ctx, r):
        acc.count("evaluations")
        per_step = {"leapfrog": 1, "bcss2": 2}[cfg["integrator"][0]]
        if r["calls"] != per_step * r["n_step"] or r["distinct"] != r["calls"]:
            acc.violation(driver="transition", config=cfg, fields=F,
                          kind="gradient_count", observed=r,
                          expected="one gradient evaluation per new position (stages x n_step)",
                          choices=ctx.choices)
        else:
            acc.outcome(("trans", cfg["spec"], kind, r["n_step"]))

    res = explore(run, on_leaf)
    acc.count("transition_executions", res["leaves"])


def check_config(cfg, acc):
    if cfg["mode"] == "bfs":
        explore_class(cfg, acc)
    elif cfg["mode"] == "trajectory":
        check_trajectories(cfg, acc)
    else:
        check_transitions(cfg, acc)
    acc.count("cases")


def configs(tier, seed):
    from mc import izoo

    cfgs = []
    depth = 2 if tier == "quick" else 3
    for spec, _ in cw.SYSTEM_SPECS:
        for conv in cw.CONVS + cw.CONVS_MIXED:
            if conv == "mixed_mid" and spec != "softabs_riemannian":
                continue
            if conv == "mixed_top" and not (set(cw.methods_of(dict(cw.SYSTEM_SPECS)[spec]))
                                            & {"mhp_constr", "mtp_neg_log_dens",
                                               "vjp_metric_func"}):
                continue
            cfgs.append({"mode": "bfs", "spec": spec, "conv": conv, "d": 2, "depth": depth,
                         "seed": seed})
    if tier == "thorough":
        # one level deeper for the classes with the richest derivative chains
        for spec, conv in (("euclidean", "with_value"), ("constrained_gram", "mixed_top")):
            n_first = len(cw.World(spec, conv, 2).enabled_ops())
            for k in range(n_first):
                cfgs.append({"mode": "bfs", "spec": spec, "conv": conv, "d": 2, "depth": 4,
                             "seed": seed, "first_op": k})
    for spec in ("constrained_hausdorff", "constrained_gram", "gaussian_constrained"):
        for conv in cw.CONVS:
            for rec in izoo.constrained_recipes(True, (1, 2, 3)):
                cfgs.append({"mode": "trajectory", "spec": spec, "conv": conv,
                             "integrator": rec})
    for spec in ("euclidean", "euclidean_identity", "gaussian"):
        for conv in cw.CONVS:
            for rec in izoo.tractable_recipes("quick"):
                cfgs.append({"mode": "trajectory", "spec": spec, "conv": conv,
                             "integrator": rec})
            for kind in ("static", "random", "multinomial", "slice"):
                for rec in (["leapfrog"], ["bcss2"]):
                    cfgs.append({"mode": "transition", "spec": spec, "conv": conv,
                                 "integrator": rec, "transition": kind, "eps": 0.3,
                                 "depth": 2 if tier == "quick" else 3})
    return cfgs


def run(tier, seed, acc):
    from mc.lattice import run_lattice

    cfgs = configs(tier, seed)
    cfgs.sort(key=lambda c: 0 if c["mode"] == "bfs" else 1)
    run_lattice(MOD, cfgs, acc, shards_per_worker=16)
    c = acc.counts
    cov = {
        "states": c.get("states", 0),
        "transitions": c.get("transitions", 0) + c.get("transition_executions", 0),
        "traces_validated_against_impl": c.get("transitions", 0)
        + c.get("transition_executions", 0),
        "evaluations": c.get("clause_checks", 0) + c.get("evaluations", 0),
        "distinct_nontrivial": len(acc.outcomes),
        "rule": "(A) BFS as for C09 per system class x return convention; in every distinct state, "
                "for every cached method on every live state: repeat call / call on a copy / call "
                "after assigning independent variables / lower-order methods after a derivative "
                "call evaluate zero user callbacks (counted by wrappers); (B) gradient call "
                "counts along explicit trajectories n=1..8 and through every transition type over "
                "all random outcomes (E1); non-trivial = distinct (state, method) pairs / "
                "trajectory lengths / step counts that passed",
        "exhaustive": True,
        "bounds": {"depth": 2 if tier == "quick" else 3,
                   "depth_for_two_classes": None if tier == "quick" else 4,
                   "clause_checks": c.get("clause_checks", 0),
                   "transition_executions": c.get("transition_executions", 0)},
    }
    return cov, ["documented dependencies of cached methods are written down in the harness "
                 "(mc/cacheworld.py DEPENDS)",
                 "transition clause starts from a state whose gradient is already cached (as from "
                 "the second iteration of a chain); evaluations at a never-evaluated start state "
                 "are not judged"]


def replay(rec):
    from mc.runner import Acc

    acc = Acc()
    cfg = rec["config"]
    if rec["driver"] == "bfs":
        build = build_factory(cfg["spec"], cfg["conv"], cfg["d"])
        inv = make_invariant(cfg["spec"], cfg["conv"], cfg["d"], acc, cfg, build)
        inv(build(rec["history"]), rec["history"])
    else:
        check_config(cfg, acc)
    want = rec["fields"]
    for recs in acc.viol.values():
        if recs[0]["fields"] == want:
            return True, {"history": rec.get("history"), "observed": recs[0]["observed"],
                          "expected": recs[0]["expected"], "fields": want}
    return False, {"violations_seen": [r[0]["fields"] for r in acc.viol.values()]}
