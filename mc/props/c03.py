"""C03 - integrator steps are symplectic maps.

For every integrator configuration x compatible system whose step succeeds with tightened solver
tolerances: Jacobian of the n-step map by 4th-order central differences; J^T Omega J = Omega.
Constrained systems: a basis of the tangent space of the cotangent bundle is built by the harness,
perturbed points are put back on the bundle by the harness's own projections, and the restricted
form is compared before and after.
"""

from __future__ import annotations

import numpy as np

from mc import izoo, zoo
from mc.lattice import replay_lattice, run_lattice
from mc.props.c02 import pairings

MOD = "mc.props.c03"
H = 1e-4


def nstep_map(integ, n, direction):
    def f(z, d):
        x = zoo.mk_state(z[:d], z[d:], direction)
        for _ in range(n):
            x = integ.step(x)
        return np.concatenate([x.pos, x.mom])
    return f


def fd_dir(f, curve):
    """4th order central difference of f along a curve h -> z(h)."""
    return (-f(curve(2 * H)) + 8 * f(curve(H)) - 8 * f(curve(-H)) + f(curve(-2 * H))) / (12 * H)


def omega(a, b, d):
    return a[:d] @ b[d:] - a[d:] @ b[:d]


def tangent_basis(case, q, p):
    """Basis of the tangent space of the cotangent bundle {c(q)=0, J M^-1 p = 0} at (q, p)."""
    con = case.constraint
    d = case.d
    Mi = np.linalg.inv(case.metric_ref(q))
    J = con.jac(q)
    Hs = con.hess(q)
    G = J @ Mi @ J.T
    # null space of J (positions) and of J M^-1 (momenta)
    _, _, Vt = np.linalg.svd(J)
    Nq = Vt[J.shape[0]:].T
    _, _, Vt2 = np.linalg.svd(J @ Mi)
    Np = Vt2[J.shape[0]:].T
    basis = []
    v = Mi @ p
    for k in range(Nq.shape[1]):
        dq = Nq[:, k]
        r = -np.einsum("ijk,j,k->i", Hs, dq, v)
        dp = J.T @ np.linalg.solve(G, r)
        basis.append(np.concatenate([dq, dp]))
    for k in range(Np.shape[1]):
        basis.append(np.concatenate([np.zeros(d), Np[:, k]]))
    return basis


def bundle_curve(case, q, p, xi):
    con = case.constraint
    d = case.d

    def curve(h):
        z = np.concatenate([q, p]) + h * xi
        Mi = np.linalg.inv(case.metric_ref(z[:d]))
        q2 = con.project(z[:d], Mi)
        p2 = con.project_mom(q2, z[d:], Mi)
        return np.concatenate([q2, p2])

    return curve


def check_config(cfg, acc):
    from mici.errors import IntegratorError

    case = zoo.build_case(cfg["system"])
    rec = cfg["integrator"]
    d = case.d
    fam = izoo.family_of(rec)
    F = {"integrator": rec[0], "class": type(case.system).__name__,
         "solver": rec[1] if fam != "tractable" else None,
         "metric": cfg["system"].get("metric", cfg["system"].get("kind"))}
    seed = cfg["system"]["seed"]
    sts = zoo.on_manifold_states(case, seed, 2) if case.constraint is not None \
        else zoo.states(d, seed, 2)
    for eps in cfg["eps"]:
        try:
            integ = izoo.build_integrator(rec, case.system, eps)
        except Exception:  # noqa: BLE001
            acc.count("incompatible_pairs")
            return
        for si, (q, p) in enumerate(sts[:1] if cfg.get("one_state") else sts):
            for n, direction in ((1, 1), (2, -1)):
                acc.count("evaluations")
                fmap = nstep_map(integ, n, direction)
                f = lambda z: fmap(z, d)  # noqa: E731
                z0 = np.concatenate([q, p])
                try:
                    if case.constraint is None:
                        basis = list(np.eye(2 * d))
                        imgs = [fd_dir(f, lambda h, e=e: z0 + h * e) for e in basis]
                    else:
                        basis = tangent_basis(case, q, p)
                        imgs = [fd_dir(f, bundle_curve(case, q, p, xi)) for xi in basis]
                except IntegratorError:
                    acc.count("step_refused")
                    continue
                except (RuntimeError, np.linalg.LinAlgError):
                    acc.count("harness_projection_failed")
                    continue
                except Exception as e:  # noqa: BLE001
                    acc.violation(driver="lattice", config=cfg,
                                  fields={**F, "what": "foreign_exception:" + type(e).__name__},
                                  kind="foreign_exception", observed=repr(e)[:200],
                                  expected="IntegratorError or a state", eps=eps, state=si)
                    continue
                m = len(basis)
                W0 = np.array([[omega(basis[a], basis[b], d) for b in range(m)]
                               for a in range(m)])
                W1 = np.array([[omega(imgs[a], imgs[b], d) for b in range(m)]
                               for a in range(m)])
                jn = max(1.0, max(float(np.max(np.abs(v))) for v in imgs))
                if not np.all(np.isfinite(W1)) or jn > 1e4:
                    acc.count("ill_conditioned_skipped")
                    continue
                err = float(np.max(np.abs(W1 - W0)))
                tol = 2e-6 * (1 + jn * jn)
                acc.count("jacobians")
                if err > tol:
                    acc.violation(driver="lattice", config=cfg,
                                  fields={**F, "what": "not_symplectic"}, kind="not_symplectic",
                                  observed={"max_abs_deviation": err, "form_after": W1},
                                  expected={"form_before": W0, "tol": tol}, eps=eps, state=si,
                                  n=n, dir=direction)
                else:
                    acc.outcome((F["integrator"], F["class"], F["solver"], F["metric"], eps, n,
                                 si))
    acc.count("cases")
    if len(acc.samples) < 3:
        acc.sample(cfg)


def configs(tier, seed):
    cfgs = []
    for sc, r in pairings(tier, seed):
        fam = izoo.family_of(r)
        if fam in ("implicit_leapfrog", "implicit_midpoint") and not r[2]:
            continue
        if fam == "constrained" and not r[3]:
            continue
        eps = [0.05, 0.2] if tier == "quick" else [0.025, 0.1, 0.2, 0.4]
        cfgs.append({"system": sc, "integrator": r, "eps": eps,
                     "one_state": tier == "quick" and fam == "tractable"})
    return cfgs


def run(tier, seed, acc):
    from mc.runner import HarnessError

    cfgs = configs(tier, seed)
    run_lattice(MOD, cfgs, acc, shards_per_worker=8)
    c = acc.counts
    if not acc.viol and (c.get("jacobians", 0) < 200):
        raise HarnessError(f"C03 non-vacuity floor missed: {c}")
    cov = {
        "evaluations": c.get("evaluations", 0),
        "distinct_nontrivial": len(acc.outcomes),
        "rule": "integrator configuration x compatible system (non-linear targets, position "
                "dependent metrics, curved constraint manifolds) x metric x lattice states x step "
                "sizes x (1 step forward, 2 steps backward); symplectic form of the "
                "finite-difference Jacobian (restricted to the cotangent bundle for constrained "
                "systems) compared with the canonical form; non-trivial = distinct Jacobians "
                "that were evaluated and compared",
        "exhaustive": True,
        "bounds": {"configs": len(cfgs), "fd_step": H, "jacobians": c.get("jacobians", 0),
                   "step_refused": c.get("step_refused", 0)},
    }
    return cov, ["numerical oracle: 4th-order central differences with h=1e-4 and tightened "
                 "solver tolerances (1e-13); tolerance 2e-6 (1 + |J|^2)",
                 "lattice states only"]


def replay(rec):
    return replay_lattice(MOD, rec)
