"""C06 - a step of size eps approximates the exact flow over time eps to second order.

(i) exact, symbolic in time: every tractable-flow integrator is run once on a recording system
whose flows only log (component, dt) with step size Fraction(1): the log of the stepped state must
alternate components, be palindromic and sum to exactly 1 per component.
(ii) numerical: local error of one step against a reference flow of the documented Hamiltonian over
a ladder of step sizes; fitted log-log slopes of state error (>= 2.5) and energy error (>= 1.8).
"""

from __future__ import annotations

import itertools
from fractions import Fraction

import numpy as np

from mc import izoo, zoo
from mc.lattice import replay_lattice, run_lattice

MOD = "mc.props.c06"
LADDER = (0.1, 0.05, 0.025, 0.0125)


# ---------------------------------------------------------------------------------------------
# (i) recording system
# ---------------------------------------------------------------------------------------------


class RecordingSystem:
    def __init__(self):
        self.log = []

    def h1_flow(self, state, dt):
        self.log.append((id(state), "h1", dt))

    def h2_flow(self, state, dt):
        self.log.append((id(state), "h2", dt))

    # constrained-integrator interface (projection is the identity on the recorder)
    def project_onto_cotangent_space(self, mom, state):
        return mom

    def dh1_dpos(self, state):
        return np.zeros_like(state.pos)


def record_step(integ, system):
    from mici.states import ChainState

    st = ChainState(pos=np.zeros(1), mom=np.zeros(1), dir=1)
    system.log.clear()
    new = integ.step(st)
    return [(c, dt) for (i, c, dt) in system.log if i == id(new)], len(system.log)


def check_composition(cfg, acc):
    from mici import integrators as I

    F = {"integrator": cfg["kind"]}

    def viol(what, obs, exp):
        acc.violation(driver="recorder", config=cfg, fields={**F, "what": what},
                      kind="composition", observed=obs, expected=exp)

    sysr = RecordingSystem()
    one = Fraction(1)
    exact = True
    if cfg["kind"] == "symcomp":
        coeffs = [Fraction(n, 10) for n in cfg["coeffs"]]
        integ = I.SymmetricCompositionIntegrator(sysr, coeffs, step_size=one,
                                                 initial_h1_flow_step=cfg["h1_first"])
    elif cfg["kind"] == "leapfrog":
        integ = I.LeapfrogIntegrator(sysr, one)
        exact = False  # 0.5 * Fraction -> float, still exact in binary
    elif cfg["kind"] in ("bcss2", "bcss3", "bcss4"):
        cls = {"bcss2": I.BCSSTwoStageIntegrator, "bcss3": I.BCSSThreeStageIntegrator,
               "bcss4": I.BCSSFourStageIntegrator}[cfg["kind"]]
        integ = cls(sysr, 1.0)
        exact = False
    elif cfg["kind"] == "constrained_leapfrog":
        integ = I.ConstrainedLeapfrogIntegrator(
            sysr, 1.0, n_inner_step=cfg["n_inner"],
            projection_solver=lambda state, state_prev, dt, system: state)
        exact = False
    else:
        raise KeyError(cfg["kind"])
    acc.count("evaluations")
    try:
        log, total = record_step(integ, sysr)
    except Exception as e:  # noqa: BLE001
        viol("exception:" + type(e).__name__, repr(e)[:200], "a step")
        return
    comps = [c for c, _ in log]
    dts = [dt for _, dt in log]
    # drop zero-length flows? no: the documented scheme alternates components
    for a, b in zip(comps, comps[1:]):
        if a == b and cfg["kind"] != "constrained_leapfrog":
            viol("components_do_not_alternate", comps, "alternating h1/h2")
            return
    # the library derives the dependent coefficients in floating point (0.5 - sum(...)), so the
    # consistency conditions hold to rounding, not exactly, even for rational free coefficients
    tol = 8e-16
    for c in ("h1", "h2"):
        s = sum(dt for cc, dt in log if cc == c)
        if abs(s - 1) > tol:
            viol(f"weights_of_{c}_do_not_sum_to_one", str(s), "1")
            return
    if any(abs(a - b) > 1e-16 for a, b in zip(dts, dts[::-1])) or \
            comps != comps[::-1]:
        viol("not_palindromic", [str(x) for x in dts], "palindromic sub-step weights")
        return
    if cfg["kind"] == "constrained_leapfrog":
        n = cfg["n_inner"]
        want = ["h1"] + ["h2"] * n + ["h1"]
        if comps != want or abs(dts[0] - 0.5) > 1e-16 or any(abs(x - 1.0 / n) > 1e-15
                                                             for x in dts[1:-1]):
            viol("constrained_scheme", [comps, [float(x) for x in dts]],
                 "A(t/2) B(t/N)^N A(t/2)")
            return
    acc.outcome((cfg["kind"], tuple(str(x) for x in dts)))


# ---------------------------------------------------------------------------------------------
# (ii) numerical order
# ---------------------------------------------------------------------------------------------


def check_order(cfg, acc):
    from mici.errors import IntegratorError

    case = zoo.build_case(cfg["system"])
    rec = cfg["integrator"]
    F = {"integrator": rec[0], "class": type(case.system).__name__,
         "solver": rec[1] if len(rec) > 1 and isinstance(rec[1], str) else None}

    def viol(kind, what, obs, exp, **kw):
        acc.violation(driver="order", config=cfg, fields={**F, "what": what}, kind=kind,
                      observed=obs, expected=exp, **kw)

    if case.constraint is not None:
        sts = zoo.on_manifold_states(case, cfg["system"]["seed"], 2)
    else:
        sts = zoo.states(case.d, cfg["system"]["seed"], 2)
    for si, (q, p) in enumerate(sts[:cfg.get("n_states", 1)]):
        for sgn in (1, -1):
            errs, denergy, denergy_own = [], [], []
            ok = True
            for eps in LADDER:
                acc.count("evaluations")
                try:
                    integ = izoo.build_integrator(rec, case.system, eps)
                except Exception as e:  # noqa: BLE001
                    acc.count("incompatible_pairs")
                    return
                st = zoo.mk_state(q, p, sgn)
                try:
                    new = integ.step(st)
                except IntegratorError:
                    acc.count("integrator_errors")
                    ok = False
                    break
                except Exception as e:  # noqa: BLE001
                    viol("exception", "step:" + type(e).__name__, repr(e)[:200], "a state",
                         eps=eps)
                    return
                try:
                    qr, pr = izoo.ref_flow(case, q, p, sgn * eps)
                except Exception:  # noqa: BLE001
                    acc.count("reference_flow_failed")
                    ok = False
                    break
                e = max(np.max(np.abs(new.pos - qr)), np.max(np.abs(new.mom - pr)))
                de = abs(case.h_ref(np.array(new.pos), np.array(new.mom)) - case.h_ref(q, p))
                errs.append(float(e))
                denergy.append(float(de))
                # the same energy error measured with the system's OWN Hamiltonian
                try:
                    denergy_own.append(abs(float(case.system.h(new))
                                           - float(case.system.h(zoo.mk_state(q, p, sgn)))))
                except Exception:  # noqa: BLE001
                    denergy_own.append(float("nan"))
            if not ok:
                continue
            acc.count("ladders")
            if max(errs) < 1e-10:
                acc.count("ladders_exact_to_rounding")
                acc.outcome((F["integrator"], F["class"], "exact"))
                continue
            if min(errs) < 1e-12:
                acc.count("ladders_at_noise_floor")
                continue
            slope = izoo.loglog_slope(LADDER, errs)
            # the coarsest steps may be pre-asymptotic (components of the error changing sign):
            # accept if either the fitted slope or the slope between the two finest steps
            # shows third-order local error
            slope = max(slope, izoo.loglog_slope(LADDER[-2:], errs[-2:]))
            if slope < 2.5:
                viol("order", "local_error_order", {"slope": slope, "errors": errs},
                     "slope >= 2.5 (local error O(eps^3))", state=si, dir=sgn)
                continue
            # energy error at least O(eps^2): |dH|/eps^2 must not grow as eps shrinks (robust to
            # sign changes of the signed energy error, which only make individual ratios smaller)
            ratios = [de / e ** 2 for de, e in zip(denergy, LADDER)]
            if max(denergy) > 1e-11 and ratios[-1] > 2.0 * max(ratios[:-1]) + 1e-9:
                viol("order", "energy_error_order", {"dH_over_eps2": ratios, "errors": denergy},
                     "|dH|/eps^2 bounded as eps -> 0", state=si, dir=sgn)
                continue
            ratios = [de / e ** 2 for de, e in zip(denergy_own, LADDER)]
            if all(np.isfinite(denergy_own)) and max(denergy_own) > 1e-11 and \
                    ratios[-1] > 2.0 * max(ratios[:-1]) + 1e-9:
                viol("order", "energy_error_order_wrt_system_h",
                     {"dH_over_eps2": ratios, "errors": denergy_own},
                     "|d system.h|/eps^2 bounded as eps -> 0", state=si, dir=sgn)
                continue
            acc.outcome((F["integrator"], F["class"], round(slope, 2)))


def check_config(cfg, acc):
    if cfg["mode"] == "composition":
        check_composition(cfg, acc)
    else:
        check_order(cfg, acc)
    if len(acc.samples) < 3:
        acc.sample(cfg)


def configs(tier, seed):
    cfgs = []
    # (i) compositions: all free-coefficient tuples over {1,2,3,4}/10 for S-1 = 0..n_free_max
    nmax = 4 if tier == "quick" else 5
    for nf in range(0, nmax + 1):
        for tup in itertools.product((1, 2, 3, 4), repeat=nf):
            for h1 in (True, False):
                cfgs.append({"mode": "composition", "kind": "symcomp", "coeffs": list(tup),
                             "h1_first": h1})
    for k in ("leapfrog", "bcss2", "bcss3", "bcss4"):
        cfgs.append({"mode": "composition", "kind": k})
    for n in (1, 2, 3, 4):
        cfgs.append({"mode": "composition", "kind": "constrained_leapfrog", "n_inner": n})
    # (ii) numerical order
    quick = tier == "quick"
    sysc = zoo.system_configs(seed, tier, all_convs=False,
                              dims=(2,) if quick else (1, 2, 3), derived_metrics=True)
    mets = ("identity", "dense_pd", "pos_diagonal", "low_rank_downdate",
            "derived_used_then_divided", "derived_inv_after_eig") if quick else None
    for sc in sysc:
        if quick and sc["target"] != "quartic":
            continue
        if mets and sc.get("metric") is not None and sc["metric"] not in mets:
            continue
        fam = sc["family"]
        if fam in ("euclidean", "gaussian"):
            if sc["metric"] == "derived_heavy_identity":
                continue  # the ladder is far below the time scale of this system
            recs = izoo.tractable_recipes(tier) if sc["metric"] in ("identity", "dense_pd") \
                else [["leapfrog"], ["bcss3"]]
            recs = recs + ([["implicit_midpoint", "direct", True]] if sc["metric"] == "dense_pd"
                           else [])
        elif fam == "riemannian":
            if sc["softabs_coeff"] not in (1.0, 0.5):
                continue  # coefficient 10 is pre-asymptotic on the ladder
            recs = izoo.implicit_recipes(True)
            if sc["softabs_coeff"] != 1.0:
                recs = recs[:1] if quick else recs
        else:
            if quick and sc["metric"] not in ("identity", "dense_pd"):
                continue
            recs = izoo.constrained_recipes(True, (1, 2) if quick else (1, 2, 3))
        for r in recs:
            cfgs.append({"mode": "order", "system": sc, "integrator": r})
    return cfgs


def run(tier, seed, acc):
    from mc.runner import HarnessError

    cfgs = configs(tier, seed)
    run_lattice(MOD, cfgs, acc, shards_per_worker=8)
    c = acc.counts
    if not acc.viol and (c.get("ladders", 0) < 50):
        raise HarnessError(f"C06 non-vacuity floor missed: {c}")
    cov = {
        "evaluations": c.get("evaluations", 0),
        "distinct_nontrivial": len(acc.outcomes),
        "rule": "(i) every symmetric composition with free coefficients from {1,2,3,4}/10 up to "
                "S-1 free coefficients, both flow orders, BCSS schemes, leapfrog and the "
                "constrained scheme with N inner steps, run on a recording system with exact "
                "rational step size; (ii) every integrator x compatible system on the lattice: "
                "log-log slope of one-step error against a reference flow over eps ladder; "
                "distinct = distinct (integrator, system class, weights or slope)",
        "exhaustive": True,
        "bounds": {"configs": len(cfgs), "ladder": list(LADDER),
                   "ladders_fitted": c.get("ladders", 0),
                   "integrator_errors": c.get("integrator_errors", 0)},
    }
    return cov, ["reference flow: SciPy DOP853 (rtol 1e-11) on Hamilton's equations of the dense "
                 "reference Hamiltonian (4th-order finite-difference gradients); constrained: "
                 "index-1 reduction with zoo constraint Hessians",
                 "thresholds 2.5 / 1.8 calibrated: correct integrators measure 2.8-3.1"]


def replay(rec):
    return replay_lattice(MOD, rec)
