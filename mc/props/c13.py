"""C13 - sampler outputs record exactly the post-iteration chain states.

Complete product of chain counts, warm-up / main iteration counts (incl. zero), trace_warm_up,
trace function sets, monitor_stats, adapters, stagers, storage (memory, forced memmap, user dir),
initial-state forms and sampler types; a recording wrapper around every transition logs the
post-transition state and statistics per chain and iteration, and every returned row is compared
with the log.  Memmap and multi-process runs are compared value for value with the in-memory
sequential run.
"""

from __future__ import annotations

import itertools
import os
import tempfile

import numpy as np

from mc.lattice import replay_lattice, run_lattice

MOD = "mc.props.c13"

LOG = {}  # cid -> list of (trans_key, variables, stats)
DELAYS = {}  # cid -> seconds slept in the trace function (real-pool runs only)


def _delay(state):
    d = DELAYS.get(int(state.cid), 0.0)
    if d:
        import time
        time.sleep(d)


class RecordingTransition:
    """Wraps a transition; logs the state and statistics after every sample() by chain id."""

    def __init__(self, inner, key):
        self.inner, self.key = inner, key

    @property
    def state_variables(self):
        return self.inner.state_variables

    @property
    def statistic_types(self):
        return self.inner.statistic_types

    def __getattr__(self, name):
        if "inner" not in self.__dict__:  # during unpickling
            raise AttributeError(name)
        return getattr(self.__dict__["inner"], name)

    def sample(self, state, rng):
        new, stats = self.inner.sample(state, rng)
        cid = int(new.cid)
        LOG.setdefault(cid, []).append(
            (self.key, {k: (np.array(v) if isinstance(v, np.ndarray) else v)
                        for k, v in new._variables.items()},  # noqa: SLF001
             None if stats is None else dict(stats)))
        return new, stats


class WalkTransition:
    """Stub transition of the generic sampler: random-walk on pos with statistics."""

    state_variables = {"pos"}
    statistic_types = {"jump": (np.float64, np.nan), "count": (np.int64, -1),
                       "flag": (bool, False)}

    def sample(self, state, rng):
        step = rng.standard_normal(state.pos.shape)
        state.pos = state.pos + 0.5 * step
        return state, {"jump": float(np.sum(step**2)), "count": int(10 * abs(state.pos[0])),
                       "flag": step[0] > 0}


class FlipTransition:
    """Stub transition without statistics."""

    state_variables = {"pos"}
    statistic_types = None

    def sample(self, state, rng):
        state.pos = state.pos[::-1].copy() + 0.125
        return state, None


def trace_pos(state):
    _delay(state)
    return {"pos": state.pos}


def trace_overlap_a(state):
    _delay(state)
    return {"pos": state.pos, "r": 0}


def trace_overlap_b(state):
    return {"r": float(np.sum(state.pos**2)), "q0": state.pos[0]}


def trace_int(state):
    return {"sign": int(state.pos[0] > 0), "cid": int(state.cid)}


def trace_dotted(state):
    # keys that differ only after their last period (file names are built from the keys)
    return {"theta.1": state.pos[0], "theta.2": 10.0 * state.pos[1],
            "theta.10": float(np.sum(state.pos))}


def trace_punct(state):
    # keys with characters that are not valid in file names (all distinct after sanitising)
    return {"x[1]": state.pos[0], "x0": 100.0 * state.pos[1], "a b": 2.0 * state.pos[0],
            "a-b": 3.0 * state.pos[0], "a_b": 4.0 * state.pos[0]}


def trace_collide(state):
    # "x[0]" and "x0" differ only in characters that are not valid in file names
    return {"x[0]": state.pos[0], "x0": 100.0 * state.pos[1]}


TRACE_SETS = {
    "dotted": [trace_dotted], "punct": [trace_punct], "collide": [trace_collide],
    "none": None, "empty": [], "pos": [trace_pos], "overlap": [trace_overlap_a, trace_overlap_b],
    "int": [trace_pos, trace_int],
}


def nld(q):
    return 0.5 * np.sum(q**2) + 0.1 * np.sum(q**4)


def grad_nld(q):
    return q + 0.4 * q**3


def build(cfg):
    import mici
    from mici.states import ChainState

    rng = np.random.default_rng(987 + cfg["seed"])
    n_chain = cfg["n_chain"]
    kind = cfg["sampler"]
    if kind == "generic":
        transitions = {"walk": RecordingTransition(WalkTransition(), "walk"),
                       "flip": RecordingTransition(FlipTransition(), "flip"),
                       # a second transition recording statistics under the same names
                       "walk2": RecordingTransition(WalkTransition(), "walk2")}
        sampler = mici.samplers.MarkovChainMonteCarloMethod(rng, transitions)
        inits = [ChainState(pos=np.array([0.3 * (c + 1), -0.2]), cid=c) for c in range(n_chain)]
        if cfg["init_form"] == "dict":
            inits = [{"pos": np.array([0.3 * (c + 1), -0.2]), "cid": c} for c in range(n_chain)]
        return sampler, inits, None
    system = mici.systems.EuclideanMetricSystem(nld, grad_neg_log_dens=grad_nld)
    integ = mici.integrators.LeapfrogIntegrator(system, step_size=0.3)
    if kind == "static":
        sampler = mici.samplers.StaticMetropolisHMC(system, integ, rng, n_step=2)
    elif kind == "random":
        sampler = mici.samplers.RandomMetropolisHMC(system, integ, rng, n_step_range=(1, 4))
    elif kind == "multinomial":
        sampler = mici.samplers.DynamicMultinomialHMC(system, integ, rng, max_tree_depth=2)
    else:
        sampler = mici.samplers.DynamicSliceHMC(system, integ, rng, max_tree_depth=2)
    for k in list(sampler.transitions):
        sampler.transitions[k] = RecordingTransition(sampler.transitions[k], k)
    inits = [ChainState(pos=np.array([0.3 * (c + 1), -0.2]), mom=np.array([0.5, -0.1 * c]),
                        dir=1, cid=c) for c in range(n_chain)]
    return sampler, inits, system


def run_case(cfg, storage, n_process, memdir=None):
    import mici

    LOG.clear()
    sampler, inits, system = build(cfg)
    kw = dict(n_process=n_process, display_progress=False, trace_warm_up=cfg["trace_warm_up"])
    ts = TRACE_SETS[cfg["trace_set"]]
    generic = cfg["sampler"] == "generic"
    if ts is not None or generic:
        kw["trace_funcs"] = ts
    if cfg["monitor"]:
        kw["monitor_stats"] = {"walk": ["jump"]} if generic else ["accept_stat", "n_step"]
    if cfg["adapters"] == "step" and not generic:
        kw["adapters"] = [mici.adapters.DualAveragingStepSizeAdapter()]
    elif not generic:
        kw["adapters"] = []
    if generic:
        kw["adapters"] = None
    if cfg["stager"] == "warmup":
        kw["stager"] = mici.stagers.WarmUpStager()
    elif cfg["stager"] == "windowed" and kw.get("adapters"):
        kw["stager"] = mici.stagers.WindowedWarmUpStager()
    if storage == "memmap_tmp":
        kw["force_memmap"] = True
    elif storage == "memmap_dir":
        kw["force_memmap"] = True
        kw["memmap_path"] = memdir
    from mc.runner import run_with_alarm

    out = run_with_alarm(90, sampler.sample_chains, cfg["n_warm"], cfg["n_main"], inits, **kw)
    log = {c: list(v) for c, v in LOG.items()}
    # materialise (memmaps may point to a temporary directory)
    traces = None if out.traces is None else {k: [np.array(a) for a in v]
                                              for k, v in out.traces.items()}
    stats = out.statistics
    if generic:
        stats = {tk: {k: [np.array(a) for a in v] for k, v in d.items()}
                 for tk, d in stats.items()}
    else:
        stats = {"integration_transition": {k: [np.array(a) for a in v]
                                            for k, v in stats.items()}}
    finals = [{k: (np.array(v) if isinstance(v, np.ndarray) else v)
               for k, v in s._variables.items()} for s in out.final_states]  # noqa: SLF001
    return {"traces": traces, "stats": stats, "finals": finals, "log": log,
            "raw": out if storage == "memmap_dir" else None}


def eq(a, b):
    a, b = np.asarray(a), np.asarray(b)
    return a.shape == b.shape and bool(np.array_equal(a, b, equal_nan=True))


def judge_against_log(cfg, res, acc, viol):
    import mici

    n_chain, n_warm, n_main = cfg["n_chain"], cfg["n_warm"], cfg["n_main"]
    twu = cfg["trace_warm_up"]
    n_rows = n_warm + n_main if twu else n_main
    first_recorded = 0 if twu else n_warm
    ts = TRACE_SETS[cfg["trace_set"]]
    generic = cfg["sampler"] == "generic"
    if ts is None and not generic:
        ts = "default"
    keys = ["walk", "flip", "walk2"] if generic else ["momentum_transition",
                                                       "integration_transition"]
    for c in range(n_chain):
        log = res["log"].get(c, [])
        if len(log) != len(keys) * (n_warm + n_main):
            viol("iteration_count", len(log), len(keys) * (n_warm + n_main), chain=c)
            return
        # state after iteration r = state after the last transition of that iteration
        post = [log[len(keys) * r + len(keys) - 1][1] for r in range(n_warm + n_main)]
        # traces
        if ts and res["traces"] is None:
            viol("traces_missing", None, "trace arrays")
            return
        if ts:
            from mici.states import ChainState
            for r in range(n_rows):
                st = ChainState(**post[first_recorded + r])
                want = {}
                if ts == "default":
                    want = {"pos": st.pos, "hamiltonian": float(nld(st.pos)
                                                                 + 0.5 * np.sum(st.mom**2))}
                else:
                    for f in ts:
                        want.update(f(st))
                for k, v in want.items():
                    if k not in res["traces"]:
                        viol("trace_key_missing", k, "present")
                        return
                    arr = res["traces"][k][c]
                    if len(arr) != n_rows:
                        viol("trace_length", len(arr), n_rows, key=k, chain=c)
                        return
                    got = arr[r]
                    if k == "hamiltonian":
                        if not np.isclose(got, v, rtol=1e-12, atol=1e-12):
                            viol("trace_value", got, v, key=k, chain=c, row=r)
                            return
                    elif not eq(got, np.asarray(v)):
                        viol("trace_value", got, v, key=k, chain=c, row=r)
                        return
                    acc.count("rows_compared")
        elif res["traces"] is not None and len(res["traces"]) > 0:
            viol("unexpected_traces", list(res["traces"]), None)
            return
        # statistics
        for ti, tk in enumerate(keys):
            tstats = res["stats"].get(tk)
            types = None
            logged = [log[len(keys) * r + ti][2] for r in range(n_warm + n_main)]
            if not logged:
                continue
            if all(s is None for s in logged):
                if tstats:
                    viol("unexpected_statistics", tk, None)
                    return
                continue
            if tstats is None:
                viol("statistics_missing", tk, "present")
                return
            for sk, arrs in tstats.items():
                arr = arrs[c]
                if len(arr) != n_rows:
                    viol("statistics_length", len(arr), n_rows, key=sk, chain=c)
                    return
                for r in range(n_rows):
                    want = logged[first_recorded + r].get(sk)
                    if want is None:
                        continue
                    wantc = np.asarray(want).astype(arr.dtype)
                    if not eq(arr[r], wantc):
                        viol("statistic_value", arr[r], want, key=sk, chain=c, row=r,
                             transition=tk)
                        return
                    acc.count("rows_compared")
        # final state
        fin = res["finals"][c]
        lastvars = post[-1] if post else None
        if lastvars is not None:
            for k, v in lastvars.items():
                if not eq(fin.get(k), v):
                    viol("final_state", fin.get(k), v, var=k, chain=c)
                    return
    return True


def compare_runs(a, b, viol, label):
    if (a["traces"] is None) != (b["traces"] is None):
        viol(label + ":traces_presence", b["traces"] is None, a["traces"] is None)
        return
    if a["traces"] is not None:
        for k in a["traces"]:
            for c, (x, y) in enumerate(zip(a["traces"][k], b["traces"].get(k, []))):
                if not eq(x, y) or x.dtype != y.dtype:
                    viol(label + ":trace_differs", y, x, key=k, chain=c)
                    return
    for tk in a["stats"]:
        for sk in a["stats"][tk]:
            for c, (x, y) in enumerate(zip(a["stats"][tk][sk], b["stats"][tk][sk])):
                if not eq(x, y) or x.dtype != y.dtype:
                    viol(label + ":statistic_differs", y, x, key=sk, chain=c)
                    return
    for c, (x, y) in enumerate(zip(a["finals"], b["finals"])):
        for k in x:
            if not eq(x[k], y.get(k)):
                viol(label + ":final_state_differs", y.get(k), x[k], var=k, chain=c)
                return
    if len(a["finals"]) != len(b["finals"]):
        viol(label + ":final_state_count", len(b["finals"]), len(a["finals"]))


def check_config(cfg, acc):
    F = {"sampler": cfg["sampler"], "trace_set": cfg["trace_set"]}

    def mkviol(storage, n_process):
        def viol(what, obs, exp, **kw):
            acc.violation(driver="product", config=cfg,
                          fields={**F, "what": what, "storage": storage,
                                  "n_process": "None" if n_process is None else n_process},
                          kind="output_mismatch", observed=obs, expected=exp, **kw)
        return viol

    acc.count("evaluations")
    try:
        base = run_case(cfg, "memory", 1)
    except Exception as e:  # noqa: BLE001
        mkviol("memory", 1)("raises:" + type(e).__name__, repr(e)[:300], "returns")
        return
    if judge_against_log(cfg, base, acc, mkviol("memory", 1)):
        acc.outcome((cfg["sampler"], cfg["trace_set"], cfg["n_chain"], cfg["n_warm"],
                     cfg["n_main"], cfg["trace_warm_up"], cfg["adapters"], cfg["stager"]))
    for storage in cfg["storages"]:
        acc.count("evaluations")
        with tempfile.TemporaryDirectory() as d:
            try:
                res = run_case(cfg, storage, 1, d)
            except Exception as e:  # noqa: BLE001
                mkviol(storage, 1)("raises:" + type(e).__name__, repr(e)[:300], "returns")
                continue
            compare_runs(base, res, mkviol(storage, 1), "vs_memory")
            if storage == "memmap_dir":
                # .npy files on disk equal the returned arrays
                files = sorted(os.listdir(d))
                n_arrays = 0
                if res["traces"]:
                    for k, arrs in res["traces"].items():
                        for c, arr in enumerate(arrs):
                            fn = os.path.join(d, f"trace_{c}_{k}.npy")
                            if not os.path.exists(fn):
                                # characters not valid in file names are dropped from the key:
                                # accept the file whose name agrees on the alphanumeric part
                                alnum = lambda t: "".join(ch for ch in t if ch.isalnum())  # noqa: E731
                                exact = {f"trace_{c}_{k2}.npy" for k2 in res["traces"]}
                                # (a disambiguating suffix after the sanitised key is accepted)
                                cands = [f for f in files if f.startswith(f"trace_{c}_")
                                         and f not in exact
                                         and alnum(f[len(f"trace_{c}_"):-4]).startswith(alnum(k))]
                                if len(cands) == 1:
                                    fn = os.path.join(d, cands[0])
                            if not os.path.exists(fn) or not eq(np.load(fn), arr):
                                mkviol(storage, 1)("npy_file_differs", fn, "equal to trace array")
                            n_arrays += 1
                for tk, dct in res["stats"].items():
                    for sk, arrs in dct.items():
                        for c, arr in enumerate(arrs):
                            fn = os.path.join(d, f"stats_{c}_{tk}_{sk}.npy")
                            if not os.path.exists(fn) or not eq(np.load(fn), arr):
                                mkviol(storage, 1)("npy_file_differs", fn,
                                                   "equal to statistics array")
                            n_arrays += 1
                acc.count("npy_files_compared", n_arrays)
    for n_process in cfg["processes"]:
        acc.count("evaluations")
        acc.count("pool_runs")
        # chain 1 is slowed down so that workers finish chains in a non-index order
        seen = []

        def collect(what, obs, exp, **kw):
            seen.append((what, obs, exp, kw))

        for attempt in range(3):
            seen.clear()
            DELAYS.clear()
            DELAYS[1] = 0.03
            try:
                res = run_case(cfg, "memory", n_process)
            except Exception as e:  # noqa: BLE001
                collect("raises:" + type(e).__name__, repr(e)[:300], "returns")
                res = None
            finally:
                DELAYS.clear()
            if res is not None:
                compare_runs(base, res, collect, "vs_sequential")
            if not seen:
                break
        if seen:  # seen in three consecutive runs on the real pool
            what, obs, exp, kw = seen[0]
            mkviol("memory", n_process)(what, obs, exp, no_confirm=True, **kw)
    acc.count("cases")
    if len(acc.samples) < 3:
        acc.sample(cfg)


def configs(tier, seed):
    cfgs = []
    quick = tier == "quick"
    i = 0
    for sampler in ("generic", "static", "random", "multinomial", "slice"):
        for n_chain in (1, 2, 3):
            for n_warm in (0, 1, 3):
                for n_main in (0, 1, 3):
                    for twu in (False, True):
                        for tset in ("none", "pos", "overlap", "int") + (() if quick
                                                                          else ("empty",)):
                            for monitor in (False, True):
                                for adapters in ("none", "step"):
                                    if sampler == "generic" and adapters == "step":
                                        continue
                                    for stager in ("default", "warmup", "windowed"):
                                        if stager == "windowed" and adapters == "none":
                                            continue
                                        for init_form in ("state", "dict"):
                                            if init_form == "dict" and sampler != "generic":
                                                continue
                                            i += 1
                                            if quick and (i % 3):
                                                continue
                                            single_stage = n_warm == 0 or n_main == 0
                                            storages = ["memmap_tmp", "memmap_dir"] \
                                                if (i % (4 if quick else 2)) == 0 else []
                                            procs = []
                                            if single_stage and n_chain >= 2 \
                                                    and (i % (40 if quick else 8)) == 0:
                                                procs = [2]
                                            cfgs.append({
                                                "sampler": sampler, "n_chain": n_chain,
                                                "n_warm": n_warm, "n_main": n_main,
                                                "trace_warm_up": twu, "trace_set": tset,
                                                "monitor": monitor, "adapters": adapters,
                                                "stager": stager, "init_form": init_form,
                                                "storages": storages, "processes": procs,
                                                "seed": seed})
    # trace keys that stress the file names of memory-mapped storage
    for tset in ("dotted", "punct", "collide"):
        for sampler in ("generic", "static"):
            for n_warm in (0, 2):
                cfgs.append({"sampler": sampler, "n_chain": 2, "n_warm": n_warm, "n_main": 2,
                             "trace_warm_up": True, "trace_set": tset, "monitor": False,
                             "adapters": "none", "stager": "default", "init_form": "state",
                             "storages": ["memmap_tmp", "memmap_dir"],
                             "processes": [2] if n_warm == 0 else [], "seed": seed})
    # one chain on a pool of several processes (and on 'all CPUs')
    for sampler in ("generic", "static"):
        for procs in ([2], [None]):
            cfgs.append({"sampler": sampler, "n_chain": 1, "n_warm": 0, "n_main": 3,
                         "trace_warm_up": False, "trace_set": "pos", "monitor": False,
                         "adapters": "none", "stager": "default", "init_form": "state",
                         "storages": [], "processes": procs, "seed": seed})
    # the documented 'use all CPUs' setting
    for sampler in ("generic", "static"):
        cfgs.append({"sampler": sampler, "n_chain": 2, "n_warm": 0, "n_main": 2,
                     "trace_warm_up": False, "trace_set": "pos", "monitor": False,
                     "adapters": "none", "stager": "default", "init_form": "state",
                     "storages": [], "processes": [None], "seed": seed})
    return cfgs


def run(tier, seed, acc):
    cfgs = configs(tier, seed)
    run_lattice(MOD, cfgs, acc, shards_per_worker=6)
    c = acc.counts
    cov = {
        "evaluations": c.get("evaluations", 0),
        "distinct_nontrivial": len(acc.outcomes),
        "rule": "product of sampler type x chains x warm-up x main iterations (incl. 0) x "
                "trace_warm_up x trace function set x monitor_stats x adapters x stager x "
                "init-state form (every 3rd combination in the quick tier); each run judged row "
                "by row against the log of a recording wrapper around every transition; a subset "
                "re-run with forced memmap (temporary and user directory, .npy files compared) "
                "and on the real process pool (n_process 2 and None)",
        "exhaustive": tier == "thorough",
        "bounds": {"configs": len(cfgs), "rows_compared": c.get("rows_compared", 0),
                   "pool_runs": c.get("pool_runs", 0),
                   "npy_files_compared": c.get("npy_files_compared", 0)},
    }
    return cov, ["chain identity travels as an extra state variable (cid)",
                 "multi-process runs are compared with the sequential run only for single-stage "
                 "configurations (multi-stage parallel runs are the subject of C14)"]


def replay(rec):
    return replay_lattice(MOD, rec)
