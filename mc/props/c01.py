"""C01 - integration transitions leave exp(-H) invariant; n_step / accept_stat are true.

E1 exploration of every outcome of every random draw inside Transition.sample, with exact
probabilities, on (a) table orbits on rings Z_n driven through stub system/integrator objects and
(b) windows of real integrator orbits.  See DESIGN.md section 3 / C01.
"""

from __future__ import annotations

import itertools
import math

import numpy as np

from mc.explore_choice import explore
from mc.script_rng import ChoiceRng

TOL = 1e-10


# ----------------------------------------------------------------------------------------------
# table orbits
# ----------------------------------------------------------------------------------------------


class RingSystem:
    def __init__(self, hs, moms):
        self.hs = list(hs)
        self.moms = list(moms)
        self.n = len(hs)

    def h(self, state):
        return self.hs[int(state.idx) % self.n]

    def dh_dmom(self, state):
        return np.asarray(state.mom)


class RingIntegrator:
    def __init__(self, system, blocked=()):
        self.system = system
        self.step_size = 0.5
        self.ok_steps = 0
        self.blocked = set(blocked)  # undirected edges {(a, a+1 mod n)} that raise

    def step(self, state):
        from mici.errors import ConvergenceError
        from mici.states import ChainState

        n = self.system.n
        k = int(state.idx)
        d = int(state.dir)
        lo = (k if d == 1 else k - 1) % n
        if lo in self.blocked:
            raise ConvergenceError("blocked edge")
        k2 = k + d
        self.ok_steps += 1
        return ChainState(
            pos=np.array([float(k2 % n)]),
            mom=np.array([float(self.system.moms[k2 % n])]),
            dir=d,
            idx=k2,
        )


def _mix(*xs):
    v = 0x9E3779B97F4A7C15
    for x in xs:
        v ^= (int(x) + 0x9E3779B97F4A7C15 + ((v << 6) & 0xFFFFFFFFFFFFFFFF) + (v >> 2)) & 0xFFFFFFFFFFFFFFFF
        v = (v * 0xBF58476D1CE4E5B9) & 0xFFFFFFFFFFFFFFFF
        v ^= v >> 31
    return v


def make_criterion(spec, n):
    """spec: ("bits", table_int, spans) | ("hash", id, density_num) | ("never",) | ("always",)
    | ("wrap",) | ("summom", m)"""
    kind = spec[0]
    if kind == "bits":
        _, table, spans = spec
        spans = list(spans)

        def crit(system, s1, s2, sum_mom):
            a = int(s1.idx) % n
            span = int(s2.idx) - int(s1.idx)
            if span in spans:
                return bool((table >> (a * len(spans) + spans.index(span))) & 1)
            return bool(_mix(table, a, span) & 1)

        return crit
    if kind == "hash":
        _, ident, dens = spec

        def crit(system, s1, s2, sum_mom):
            a = int(s1.idx) % n
            span = int(s2.idx) - int(s1.idx)
            return (_mix(ident, a, span) % 8) < dens

        return crit
    if kind == "never":
        return lambda system, s1, s2, sum_mom: False
    if kind == "always":
        return lambda system, s1, s2, sum_mom: True
    if kind == "wrap":
        return lambda system, s1, s2, sum_mom: (int(s2.idx) - int(s1.idx)) >= n - 1
    if kind == "summom":
        m = spec[1]

        def crit(system, s1, s2, sum_mom):
            return int(round(float(np.sum(sum_mom)))) % m == 0

        return crit
    raise ValueError(spec)


def build_table_case(cfg):
    from mici import transitions as T

    n = cfg["n"]
    hs = [float("inf") if h == "inf" else float(h) for h in cfg["h"]]
    moms = cfg.get("moms") or [((3 * k * k + k) % 5) + 1 for k in range(n)]
    system = RingSystem(hs, moms)
    integ = RingIntegrator(system, cfg.get("blocked", ()))
    kind = cfg["transition"]
    if kind in ("multinomial", "slice"):
        cls = (T.MultinomialDynamicIntegrationTransition if kind == "multinomial"
               else T.SliceDynamicIntegrationTransition)
        mdh = cfg.get("max_delta_h", "inf")
        mdh = float("inf") if mdh == "inf" else float(mdh)
        trans = cls(
            system, integ,
            max_tree_depth=cfg["max_tree_depth"],
            max_delta_h=mdh,
            termination_criterion=make_criterion(tuple(cfg["crit"]), n),
            do_extra_subtree_checks=cfg["extra_checks"],
        )
    elif kind == "static":
        trans = T.MetropolisStaticIntegrationTransition(system, integ, n_step=cfg["n_step"])
    elif kind == "random":
        trans = T.MetropolisRandomIntegrationTransition(
            system, integ, n_step_range=tuple(cfg["n_step_range"]))
    else:
        raise ValueError(kind)
    return system, integ, trans


def table_thresholds(cfg, hs, h_init):
    if cfg["transition"] != "slice":
        return ()
    mdh = cfg.get("max_delta_h", "inf")
    mdh = float("inf") if mdh == "inf" else float(mdh)
    ts = []
    for h in hs:
        if h == math.inf or h != h:
            continue
        ts.append(h_init - h)
        if mdh != math.inf:
            ts.append(mdh + h_init - h)
    return ts


def run_table_execution(cfg, start, start_dir, choices=None, ctx=None):
    """One execution. Returns (end_key, info)."""
    from mici.states import ChainState
    from mc.explore_choice import Ctx

    system, integ, trans = build_table_case(cfg)
    n = system.n
    if ctx is None:
        ctx = Ctx(list(choices or []))
    h_init = system.hs[start % n]
    rng = ChoiceRng(ctx, table_thresholds(cfg, system.hs, h_init))
    state = ChainState(
        pos=np.array([float(start % n)]), mom=np.array([float(system.moms[start % n])]),
        dir=start_dir, idx=start,
    )
    new_state, stats = trans.sample(state, rng)
    info = {
        "stats": {k: (float(v) if not isinstance(v, (bool, np.bool_)) else bool(v))
                  for k, v in stats.items()},
        "ok_steps": integ.ok_steps,
        "end_idx": int(new_state.idx),
        "end_dir": int(new_state.dir),
        "choices": ctx.choices,
        "weight": ctx.weight,
    }
    return info


def per_execution_checks(cfg, system_hs, start, start_dir, info):
    """Return list of (kind, observed, expected) for single-execution oracles."""
    out = []
    st = info["stats"]
    n = len(system_hs)
    if int(st["n_step"]) != info["ok_steps"]:
        out.append(("n_step", st["n_step"], info["ok_steps"]))
    h_init = system_hs[start % n]
    kind = cfg["transition"]
    if kind in ("multinomial", "slice"):
        # visited states: contiguous range of ok_steps new states around start; which ones is
        # determined by end points - recompute from direction choices is complex, so use the
        # recorded visited list
        vis = info.get("visited")
        if vis is not None:
            if vis:
                acc = [0.0 if (system_hs[k % n] != system_hs[k % n]) else
                       min(1.0, math.exp(min(0.0, h_init - system_hs[k % n]))) for k in vis]
                mean = sum(acc) / len(acc)
            else:
                mean = 0.0
            if abs(st["av_metrop_accept_prob"] - mean) > 1e-12:
                out.append(("av_metrop_accept_prob", st["av_metrop_accept_prob"], mean))
            flags = st["diverging"] or st["convergence_error"] or st["non_reversible_step"]
            if not flags and abs(st["accept_stat"] - mean) > 1e-12:
                out.append(("accept_stat", st["accept_stat"], mean))
    else:
        n_step = info["n_step_drawn"]
        if st["convergence_error"] or st["non_reversible_step"]:
            exp_acc = 0.0
        else:
            h_fin = system_hs[(start + start_dir * n_step) % n]
            d = h_init - h_fin
            exp_acc = 0.0 if d != d else math.exp(min(0.0, d))
        if abs(st["accept_stat"] - exp_acc) > 1e-12:
            out.append(("accept_stat", st["accept_stat"], exp_acc))
        moved = info["end_idx"] != start
        if (st["convergence_error"] or st["non_reversible_step"]) and moved:
            out.append(("state_after_integrator_error", info["end_idx"], start))
        # dir: +dir on accept, -dir on reject
        if moved and info["end_dir"] != start_dir:
            out.append(("dir_after_accept", info["end_dir"], start_dir))
        if (not moved) and info["end_dir"] != -start_dir:
            out.append(("dir_after_reject", info["end_dir"], -start_dir))
    return out


class _VisitRecorder:
    """Wraps RingIntegrator.step to log visited indices (successful steps only)."""

    def __init__(self, integ):
        self.integ = integ
        self.visited = []
        orig = integ.step

        def step(state):
            new = orig(state)
            self.visited.append(int(new.idx))
            return new

        integ.step = step


def explore_table_case(cfg, acc, check_exec=True):
    """Explore all starts of one table configuration; returns number of executions."""
    from mici.states import ChainState

    n = cfg["n"]
    hs = [float("inf") if h == "inf" else float(h) for h in cfg["h"]]
    kind = cfg["transition"]
    dirs = (1,) if kind in ("multinomial", "slice") else (1, -1)
    finite = [h for h in hs if h != math.inf]
    hmin = min(finite)
    pi = [0.0 if h == math.inf else math.exp(-(h - hmin)) for h in hs]
    # extended state space (ring index, dir) for Metropolis; ring index for dynamic
    P = {}
    n_exec = 0
    max_depth = 0
    for start in range(n):
        if pi[start] == 0.0:
            continue
        for d0 in dirs:
            row = {}

            def run(ctx, start=start, d0=d0):
                system, integ, trans = build_table_case(cfg)
                rec = _VisitRecorder(integ)
                rng = ChoiceRng(ctx, table_thresholds(cfg, system.hs, system.hs[start % n]))
                state = ChainState(
                    pos=np.array([float(start)]), mom=np.array([float(system.moms[start])]),
                    dir=d0, idx=start)
                n_draw = None
                if kind == "random":
                    # peek the n_step draw through a wrapper
                    orig_int = rng.integers

                    def integers(lo, hi=None):
                        v = orig_int(lo, hi)
                        integers.last = v
                        return v

                    rng.integers = integers
                new_state, stats = trans.sample(state, rng)
                if kind == "random":
                    n_draw = integers.last
                elif kind == "static":
                    n_draw = cfg["n_step"]
                return {
                    "stats": {k: (bool(v) if isinstance(v, (bool, np.bool_)) else float(v))
                              for k, v in stats.items()},
                    "ok_steps": integ.ok_steps,
                    "visited": rec.visited,
                    "end_idx": int(new_state.idx),
                    "end_dir": int(new_state.dir),
                    "n_step_drawn": n_draw,
                }

            def on_leaf(ctx, info, start=start, d0=d0, row=row):
                key = (info["end_idx"] % n,) if len(dirs) == 1 else (info["end_idx"] % n,
                                                                       info["end_dir"])
                row[key] = row.get(key, 0.0) + ctx.weight
                if check_exec:
                    for (k, obs, exp) in per_execution_checks(cfg, hs, start, d0, info):
                        acc.violation(
                            driver="table_ring", config=cfg,
                            fields={"transition": kind, "stat": k},
                            kind="reported_statistic", observed=obs, expected=exp,
                            start=start, start_dir=d0, choices=ctx.choices)

            res = explore(run, on_leaf)
            n_exec += res["leaves"]
            max_depth = max(max_depth, res["max_depth"])
            if abs(res["total_weight"] - 1.0) > 1e-11:
                from mc.runner import HarnessError
                raise HarnessError(
                    f"C01 leaf weights sum to {res['total_weight']!r} for {cfg} start {start}")
            P[(start, d0)] = row
    # stationarity
    starts = list(P)
    wstart = {s: pi[s[0]] / len(dirs) for s in starts}
    ends = set()
    for row in P.values():
        ends.update(row)
    pimax = max(pi)
    nontrivial = sum(1 for row in P.values() if len(row) >= 2)
    worst = 0.0
    for e in sorted(ends):
        tot = sum(wstart[s] * P[s].get(e, 0.0) for s in starts)
        target = pi[e[0]] / len(dirs)
        worst = max(worst, abs(tot - target) / pimax)
        if abs(tot - target) > TOL * pimax:
            acc.violation(
                driver="table_ring", config=cfg,
                fields={"transition": kind}, kind="stationarity",
                observed={"end": e, "sum_pi_P": tot}, expected={"pi_end": target},
                P={f"{s}": {f"{k}": v for k, v in row.items()} for s, row in P.items()})
            break
    # also every state with pi>0 must be covered as an end target check (mass conservation)
    for s in starts:
        e = (s[0],) if len(dirs) == 1 else (s[0], s[1])
        if e not in ends:
            tot = 0.0
            if abs(tot - wstart[s]) > TOL * pimax:
                acc.violation(
                    driver="table_ring", config=cfg, fields={"transition": kind},
                    kind="stationarity", observed={"end": e, "sum_pi_P": 0.0},
                    expected={"pi_end": wstart[s]})
                break
    acc.count("executions", n_exec)
    acc.count("cases", len(starts))
    acc.count("cases_nontrivial", nontrivial)
    acc.notes["max_choice_depth"] = max(acc.notes.get("max_choice_depth", 0), max_depth)
    acc.notes["worst_residual"] = max(acc.notes.get("worst_residual", 0.0), worst)
    for s, row in P.items():
        acc.outcome((kind, tuple(sorted((k, round(v, 9)) for k, v in row.items()))))
    return n_exec


# ----------------------------------------------------------------------------------------------
# real orbits
# ----------------------------------------------------------------------------------------------


def build_real_case(cfg):
    import mici
    from mici import integrators as I, systems as S, transitions as T

    d = cfg["dim"]
    A = np.array([[1.0, 0.3], [0.3, 0.7]])[:d, :d]

    def nld(q):
        return 0.5 * q @ A @ q + 0.25 * np.sum(q**4)

    def grad(q):
        return A @ q + q**3

    if cfg["system"] == "euclidean":
        system = S.EuclideanMetricSystem(nld, grad_neg_log_dens=grad,
                                         metric=np.array([1.0, 0.6])[:d])
        integ_cls = {"leapfrog": I.LeapfrogIntegrator, "bcss2": I.BCSSTwoStageIntegrator}[
            cfg["integrator"]]
        integ = integ_cls(system, step_size=cfg["step_size"])
    elif cfg["system"] == "scalar_riemannian":
        def mfunc(q):
            return 1.0 + 0.5 * np.sum(q**2)

        def vjp(q):
            return (lambda v: v * q), mfunc(q)

        system = S.ScalarRiemannianMetricSystem(
            nld, mfunc, vjp_metric_scalar_func=vjp, grad_neg_log_dens=grad)
        integ = I.ImplicitLeapfrogIntegrator(
            system, step_size=cfg["step_size"],
            fixed_point_solver_kwargs={"convergence_tol": 1e-13, "max_iters": 200},
            reverse_check_tol=1e-10)
    else:
        raise ValueError(cfg["system"])
    crit = {"euclidean": T.euclidean_no_u_turn_criterion,
            "riemannian": T.riemannian_no_u_turn_criterion}[cfg["criterion"]]
    return system, integ, crit


def explore_real_case(cfg, acc):
    """Window of a real orbit; stationarity asserted for interior end states."""
    from mici import transitions as T
    from mici.states import ChainState

    system, integ, crit = build_real_case(cfg)
    D = cfg["max_tree_depth"]
    kind = cfg["transition"]
    reach = 2**D if kind in ("multinomial", "slice") else cfg.get("n_step_max", 3)
    W = 2 * reach + 2
    d = cfg["dim"]
    q0 = np.array(cfg["q0"], dtype=float)[:d]
    p0 = np.array(cfg["p0"], dtype=float)[:d]
    # build the orbit z_k, k in [-W, W] with the real integrator
    orbit = {0: ChainState(pos=q0.copy(), mom=p0.copy(), dir=1, idx=0)}
    for k in range(1, W + 1):
        s = integ.step(orbit[k - 1])
        s.idx = k
        orbit[k] = s
    s0 = orbit[0].copy()
    s0.dir = -1
    prev = s0
    for k in range(1, W + 1):
        s = integ.step(prev)
        s.idx = -k
        orbit[-k] = s
        prev = s
    hs = {k: float(system.h(s)) for k, s in orbit.items()}
    # wrapped integrator maintaining the orbit index
    ok = {"n": 0}
    orig_step = integ.step

    def step(state):
        new = orig_step(state)
        new.idx = int(state.idx) + int(state.dir)
        ok["n"] += 1
        return new

    integ.step = step
    if kind in ("multinomial", "slice"):
        cls = (T.MultinomialDynamicIntegrationTransition if kind == "multinomial"
               else T.SliceDynamicIntegrationTransition)
        mdh = cfg.get("max_delta_h", "inf")
        mdh = float("inf") if mdh == "inf" else float(mdh)
        trans = cls(system, integ, max_tree_depth=D, max_delta_h=mdh,
                    termination_criterion=crit,
                    do_extra_subtree_checks=cfg["extra_checks"])
    elif kind == "static":
        trans = T.MetropolisStaticIntegrationTransition(system, integ, n_step=cfg["n_step"])
        mdh = math.inf
    else:
        trans = T.MetropolisRandomIntegrationTransition(
            system, integ, n_step_range=tuple(cfg["n_step_range"]))
        mdh = math.inf
    dirs = (1,) if kind in ("multinomial", "slice") else (1, -1)
    hmin = min(hs.values())
    pi = {k: math.exp(-(h - hmin)) for k, h in hs.items()}
    starts_k = range(-(W - reach), W - reach + 1)
    P = {}
    n_exec = 0
    for k0 in starts_k:
        for d0 in dirs:
            row = {}
            thresholds = []
            if kind == "slice":
                for h in hs.values():
                    thresholds.append(hs[k0] - h)
                    if mdh != math.inf:
                        thresholds.append(mdh + hs[k0] - h)

            def run(ctx, k0=k0, d0=d0, thresholds=thresholds):
                ok["n"] = 0
                rng = ChoiceRng(ctx, thresholds)
                st = orbit[k0].copy()
                st.dir = d0
                st.idx = k0
                new_state, stats = trans.sample(st, rng)
                return {"end_idx": int(new_state.idx), "end_dir": int(new_state.dir),
                        "n_step": int(stats["n_step"]), "ok_steps": ok["n"],
                        "end_pos": np.array(new_state.pos), "end_mom": np.array(new_state.mom)}

            def on_leaf(ctx, info, k0=k0, d0=d0, row=row):
                key = (info["end_idx"],) if len(dirs) == 1 else (info["end_idx"],
                                                                  info["end_dir"])
                row[key] = row.get(key, 0.0) + ctx.weight
                if info["n_step"] != info["ok_steps"]:
                    acc.violation(driver="real_orbit", config=cfg,
                                  fields={"transition": kind, "stat": "n_step"},
                                  kind="reported_statistic", observed=info["n_step"],
                                  expected=info["ok_steps"], start=k0, start_dir=d0,
                                  choices=ctx.choices)
                # end state must be the orbit state with that index (bit for bit, since the
                # orbit was generated by the same deterministic integrator) or very close to it
                ref = orbit.get(info["end_idx"])
                if ref is not None:
                    err = max(np.max(np.abs(ref.pos - info["end_pos"])),
                              np.max(np.abs(ref.mom - info["end_mom"])))
                    if err > 1e-6:
                        acc.violation(driver="real_orbit", config=cfg,
                                      fields={"transition": kind}, kind="end_state_off_orbit",
                                      observed=float(err), expected=0.0, start=k0,
                                      start_dir=d0, choices=ctx.choices)

            res = explore(run, on_leaf)
            n_exec += res["leaves"]
            if abs(res["total_weight"] - 1.0) > 1e-11:
                from mc.runner import HarnessError
                raise HarnessError(f"C01 real orbit leaf weights {res['total_weight']!r}")
            P[(k0, d0)] = row
    # stationarity for interior ends: all predecessors (within reach) are starts
    interior = [k for k in starts_k if (k - reach) in starts_k and (k + reach) in starts_k]
    pimax = max(pi[k] for k in interior) if interior else 1.0
    worst = 0.0
    for k in interior:
        for dd in dirs:
            e = (k,) if len(dirs) == 1 else (k, dd)
            tot = sum(pi[s[0]] / len(dirs) * row.get(e, 0.0) for s, row in P.items())
            target = pi[k] / len(dirs)
            worst = max(worst, abs(tot - target) / pimax)
            if abs(tot - target) > 1e-9 * pimax:
                acc.violation(driver="real_orbit", config=cfg, fields={"transition": kind},
                              kind="stationarity", observed={"end": e, "sum_pi_P": tot},
                              expected={"pi_end": target})
                break
    acc.count("executions", n_exec)
    acc.count("cases", len(P))
    acc.count("cases_nontrivial", sum(1 for r in P.values() if len(r) >= 2))
    acc.count("real_orbit_interior_states", len(interior))
    acc.notes["worst_residual_real"] = max(acc.notes.get("worst_residual_real", 0.0), worst)
    return n_exec


# ----------------------------------------------------------------------------------------------
# configuration enumeration
# ----------------------------------------------------------------------------------------------


def _rot_canon(t):
    n = len(t)
    return min(tuple(t[(i + r) % n] for i in range(n)) for r in range(n))


def energy_tables(n, seed, tier):
    s = 1.0 + 0.013 * (seed % 8)
    base = [0.0, round(0.3 * s, 6), round(1.1 * s, 6)]
    out = []
    if n <= (5 if tier == "thorough" else 4):
        seen = set()
        for t in itertools.product(range(3), repeat=n):
            c = _rot_canon(t)
            if c in seen or len(set(c)) == 1 and c[0] != 0:
                continue
            seen.add(c)
            out.append([base[i] for i in c])
    else:
        letters = base + [round(5.0 * s, 6), "inf"]
        fam = []
        for j in range(8 if tier == "thorough" else 3):
            fam.append([letters[_mix(seed, n, j, k) % (5 if j % 2 else 4)] for k in range(n)])
        for t in fam:
            if all(x == "inf" for x in t):
                t[0] = 0.0
            out.append(t)
    # special tables with a very high and an infinite energy
    out.append([0.0] + [round(5.0 * s, 6)] + [base[1]] * (n - 2))
    out.append([base[2]] + ["inf"] + [0.0] * (n - 2))
    return out


def criterion_specs(n, depth, seed, tier):
    specs = [("never",), ("wrap",), ("summom", 3)]
    if n == 3 and depth <= 2:
        spans = [1, 2, 3]
        nbits = n * len(spans)
        if tier == "thorough":
            tables = range(2**nbits)
        else:
            tables = sorted({_mix(seed, j) % (2**nbits) for j in range(24)})
        specs += [("bits", t, spans) for t in tables]
    else:
        k = 12 if tier == "thorough" else 4
        specs += [("hash", _mix(seed, n, depth, j) % 100000, 1 + (j % 3)) for j in range(k)]
        specs.append(("always",))
    return specs


def table_configs(tier, seed):
    cfgs = []
    ns = [3, 4, 5, 6, 7, 8] if tier == "thorough" else [3, 4, 6]
    depths = [1, 2, 3] if tier == "quick" else [1, 2, 3, 4]
    for n in ns:
        for h in energy_tables(n, seed, tier):
            # Metropolis
            for n_step in (1, 2, 3):
                cfgs.append({"transition": "static", "n": n, "h": h, "n_step": n_step})
            for rng_ in ((1, 3), (2, 5)):
                cfgs.append({"transition": "random", "n": n, "h": h, "n_step_range": rng_})
            for depth in depths:
                if depth == 4:
                    continue  # depth-4 trees are added separately below (311k executions/start)
                for crit in criterion_specs(n, depth, seed, tier):
                    if depth >= 3 and crit[0] in ("bits",):
                        continue
                    for extra in (True, False):
                        cfgs.append({"transition": "multinomial", "n": n, "h": h,
                                     "max_tree_depth": depth, "crit": crit,
                                     "extra_checks": extra, "max_delta_h": "inf"})
                        for mdh in ("inf", 0.5, 2.0):
                            if depth >= 3 and mdh == 2.0 and tier == "quick":
                                continue
                            cfgs.append({"transition": "slice", "n": n, "h": h,
                                         "max_tree_depth": depth, "crit": crit,
                                         "extra_checks": extra, "max_delta_h": mdh})
    if tier == "thorough":
        # depth-4 trees: a handful of configurations (about 3e5 executions per start state)
        for n, h in ((5, [0.0, 0.3, 1.1, 0.3, 0.0]), (8, [0.0, 1.1, 0.3, 0.0, 0.3, 5.0, 0.0, 1.1])):
            for crit in (("never",), ("hash", 4242 + seed, 2)):
                for extra in (True, False):
                    cfgs.append({"transition": "multinomial", "n": n, "h": h,
                                 "max_tree_depth": 4, "crit": crit, "extra_checks": extra,
                                 "max_delta_h": "inf"})
                cfgs.append({"transition": "slice", "n": n, "h": h, "max_tree_depth": 4,
                             "crit": crit, "extra_checks": True, "max_delta_h": 2.0})
    # blocked edges: the integrator raises on one (undirected) edge of the ring, so trajectories
    # are cut short by integrator errors part-way through (symmetric in direction)
    for n in ([4, 5] if tier == "quick" else [3, 4, 5, 7]):
        for h in energy_tables(n, seed, tier)[:: (4 if tier == "quick" else 2)]:
            for blocked in ([0], [n - 2]):
                for n_step in (2, 3):
                    cfgs.append({"transition": "static", "n": n, "h": h, "n_step": n_step,
                                 "blocked": blocked})
                cfgs.append({"transition": "random", "n": n, "h": h, "n_step_range": (1, 4),
                             "blocked": blocked})
                for depth in (2, 3):
                    for crit in (("never",), ("wrap",), ("hash", _mix(seed, n, depth) % 1000, 2)):
                        for extra in (True, False):
                            cfgs.append({"transition": "multinomial", "n": n, "h": h,
                                         "max_tree_depth": depth, "crit": crit,
                                         "extra_checks": extra, "max_delta_h": "inf",
                                         "blocked": blocked})
                            cfgs.append({"transition": "slice", "n": n, "h": h,
                                         "max_tree_depth": depth, "crit": crit,
                                         "extra_checks": extra, "max_delta_h": 2.0,
                                         "blocked": blocked})
    return cfgs


def real_configs(tier, seed):
    sh = (seed % 8) / 8.0
    cfgs = []
    starts = [([0.5 + 0.1 * sh, -0.25], [0.75, 0.5 - 0.1 * sh])]
    if tier == "thorough":
        starts.append(([-1.0, 0.5 + 0.05 * sh], [0.25, -1.25]))
    for q0, p0 in starts:
        for dim in (1, 2):
            for integ, eps in (("leapfrog", 0.4), ("bcss2", 0.7)):
                for kind in ("multinomial", "slice"):
                    for extra in (True, False):
                        for D in ((1, 2) if tier == "quick" else (1, 2, 3)):
                            for crit in ("euclidean", "riemannian"):
                                cfgs.append({"system": "euclidean", "integrator": integ,
                                             "step_size": eps, "dim": dim, "q0": q0, "p0": p0,
                                             "transition": kind, "max_tree_depth": D,
                                             "criterion": crit, "extra_checks": extra,
                                             "max_delta_h": "inf" if kind == "multinomial"
                                             else 1.0})
                for n_step in (1, 3):
                    cfgs.append({"system": "euclidean", "integrator": integ, "step_size": eps,
                                 "dim": dim, "q0": q0, "p0": p0, "transition": "static",
                                 "n_step": n_step, "n_step_max": n_step, "max_tree_depth": 0,
                                 "criterion": "euclidean"})
                cfgs.append({"system": "euclidean", "integrator": integ, "step_size": eps,
                             "dim": dim, "q0": q0, "p0": p0, "transition": "random",
                             "n_step_range": (1, 4), "n_step_max": 3, "max_tree_depth": 0,
                             "criterion": "euclidean"})
        for kind in ("multinomial", "slice"):
            for D in ((1, 2) if tier == "quick" else (1, 2, 3)):
                cfgs.append({"system": "scalar_riemannian", "integrator": "implicit_leapfrog",
                             "step_size": 0.15, "dim": 2, "q0": q0, "p0": p0,
                             "transition": kind, "max_tree_depth": D, "criterion": "riemannian",
                             "extra_checks": True,
                             "max_delta_h": "inf" if kind == "multinomial" else 1.0})
    return cfgs


# ----------------------------------------------------------------------------------------------
# shard / run / replay
# ----------------------------------------------------------------------------------------------


def shard(job):
    from mc.runner import Acc

    acc = Acc()
    kind, cfgs = job
    for cfg in cfgs:
        if kind == "table":
            explore_table_case(cfg, acc)
        else:
            explore_real_case(cfg, acc)
        acc.count("configs")
        if len(acc.samples) < 2:
            acc.sample({"driver": kind, "config": cfg})
    return acc.dump()


def run(tier, seed, acc):
    from mc.runner import pmap, N_WORKERS, HarnessError

    tcfgs = table_configs(tier, seed)
    tcfgs.sort(key=lambda c: -(c.get("max_tree_depth") or 0))
    rcfgs = real_configs(tier, seed)
    # order by cost descending-ish and deal round-robin
    nsh = N_WORKERS * (6 if tier == "quick" else 40)
    jobs = [("table", tcfgs[i::nsh]) for i in range(nsh)] + \
           [("real", rcfgs[i::N_WORKERS]) for i in range(N_WORKERS)]
    jobs = [j for j in jobs if j[1]]
    for d in pmap("mc.props.c01", "shard", jobs):
        acc.merge(d)
    c = acc.counts
    if not acc.viol and (c.get("cases_nontrivial", 0) < 100):
        raise HarnessError(f"C01 non-vacuity floor missed: {c}")
    cov = {
        "states": c["cases"],
        "transitions": c["executions"],
        "traces_validated_against_impl": c["executions"],
        "evaluations": c["executions"],
        "distinct_nontrivial": c["cases_nontrivial"],
        "rule": "a case is (orbit table or real orbit window, transition settings, start state); "
                "every outcome of every internal random draw is enumerated with its exact "
                "probability (leaf weights sum to 1); non-trivial = start states with >= 2 "
                "distinct end states",
        "exhaustive": True,
        "bounds": {"table_configs": len(tcfgs), "real_orbit_configs": len(rcfgs),
                   "tier": tier},
        "caps_hit": [],
    }
    assumptions = [
        "explored object is the real Transition.sample code; random draws replaced by scripted "
        "generator whose branch probabilities are those of U(0,1) comparisons",
        "invariance is a per-orbit statement: orbits are finite rings (closed) or windows of real "
        "orbits with stationarity asserted for interior states only",
        "multinomial transition's divergence test relative to h_init is run with threshold off",
    ]
    return cov, assumptions


def replay(rec):
    from mc.runner import Acc

    acc = Acc()
    cfg = rec["config"]
    if "crit" in cfg:
        cfg["crit"] = tuple(cfg["crit"])
    if rec["driver"] == "table_ring":
        explore_table_case(cfg, acc)
    else:
        explore_real_case(cfg, acc)
    want = rec["fields"]
    for key, recs in acc.viol.items():
        if recs[0]["fields"] == want:
            return True, {"config": cfg, "observed": recs[0]["observed"],
                          "expected": recs[0]["expected"], "kind": recs[0]["kind"],
                          "extra": {k: v for k, v in recs[0].items()
                                    if k in ("choices", "start", "start_dir")}}
    return False, {"config": cfg, "violations_seen": list(acc.viol)}
