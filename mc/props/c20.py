"""C20 - log-space arithmetic matches real arithmetic without overflow or precision loss.

Lattice of log-values spanning the double range x all helpers / LogRepFloat operators / in-place
accumulation sequences, compared with `decimal` arithmetic at 800 digits.
"""

from __future__ import annotations

import itertools
import math
from decimal import (Context, Decimal, DivisionByZero, Inexact, InvalidOperation, Overflow,
                     Rounded, Subnormal, Underflow, localcontext)

import numpy as np

from mc.lattice import replay_lattice, run_lattice

MOD = "mc.props.c20"
EPS = 2.0**-52
PREC = 800  # precision of the brute-force oracle used in the self-test
INF = float("inf")


def _ctx(prec=None):
    c = Context(prec=prec or WORK_PREC, Emax=999999999999999999, Emin=-999999999999999999)
    for t in (Inexact, Rounded, Subnormal, Underflow, Overflow, InvalidOperation, DivisionByZero):
        c.traps[t] = False
    return c


def D(x):
    return Decimal(x)


WORK_PREC = 130  # working precision of the fast oracle (self-tested against 800 digits)
_TINY = Decimal(10) ** -40


def d_exp(x):
    """exp of a Decimal; tiny results underflow to 0, huge to Infinity."""
    if x == Decimal("-Infinity"):
        return Decimal(0)
    if x > Decimal(10) ** 15:
        return Decimal("Infinity")
    if x < -(Decimal(10) ** 15):
        return Decimal(0)
    return x.exp()


def d_ln(x):
    if x == 0:
        return Decimal("-Infinity")
    if x == Decimal("Infinity"):
        return x
    return x.ln()


def d_log1p_exp(v):  # ln(1 + e^v), v Decimal
    if v == Decimal("-Infinity"):
        return Decimal(0)
    if v > 0:
        return v + d_log1p_exp(-v)
    x = d_exp(v)
    if x < _TINY:  # ln(1+x) = x - x^2/2 + x^3/3 - ...  (relative error < 1e-120)
        return x - x * x / 2 + x * x * x / 3
    return d_ln(1 + x)


def d_log1m_exp(v):  # ln(1 - e^v), v < 0
    if v == Decimal("-Infinity"):
        return Decimal(0)
    if -v < _TINY:  # 1 - e^v = -v (1 + v/2 + v^2/6 + v^3/24 ...)
        return d_ln(-v) + d_ln(1 + v / 2 + v * v / 6 + v * v * v / 24)
    x = d_exp(v)
    if x < _TINY:  # ln(1-x) = -x - x^2/2 - x^3/3
        return -x - x * x / 2 - x * x * x / 3
    # 1e-40 <= |v|, x >= 1e-40: cancellation in 1 - x loses at most 40 digits of 130
    return d_ln(1 - x)


def d_lse(a, b):
    ninf = Decimal("-Infinity")
    if a == ninf and b == ninf:
        return ninf
    m, o = (a, b) if a >= b else (b, a)
    if m == Decimal("Infinity"):
        return m
    return m + d_log1p_exp(o - m)


def d_lde(a, b):  # ln(e^a - e^b), a > b
    ninf = Decimal("-Infinity")
    if b == ninf:
        return a
    return a + d_log1m_exp(b - a)


def to_float(x):
    if x.is_nan():
        return float("nan")
    return float(x)


def log_lattice(seed):
    ln2 = math.log(2.0)
    vals = [-INF]
    base = [5e-324, 1e-300, 1e-20, 1e-10, 0.5, 1.0, 36.0, 37.0, 709.0, 745.0, 1e6, 1e308]
    for b in base:
        vals += [b, -b]
    for b in (ln2, 36.0, 37.0, 709.782712893384, 745.1332191019411, 1.0):
        for s in (1, -1):
            x = s * b
            vals += [x, np.nextafter(x, INF), np.nextafter(x, -INF)]
    # seed dependent extra points (each seed explores a different finite alphabet, exhaustively)
    k = seed % 8
    extra = [(-1.0) ** j * 10.0 ** (-(3 * j + k)) for j in range(1, 5)] + \
            [-(0.1 + 0.07 * k), 2.0 + 0.3 * k, -(20.0 + k), 300.0 + 7 * k]
    vals += extra
    out = []
    for v in vals:
        v = float(v)
        if v not in out:
            out.append(v)
    return out


def tol_log(*mags):
    m = max([1.0] + [abs(x) for x in mags if x == x and abs(x) != INF])
    return 8 * EPS * m


FLOOR = 1e-322  # results in the denormal range cannot carry relative precision


def tol_rel(ex):
    """Relative tolerance for a function computed without cancellation."""
    e = abs(to_float(ex))
    return FLOOR if e in (INF,) or e != e else 16 * EPS * e + FLOOR


def tol_lse(a, b, ex):
    """log(e^a + e^b) = hi + c, c = log1p(e^(lo-hi)) in (0, ln 2]: rounding of the sum is relative
    to max(|result|, |c|) (hi and c may cancel); rounding of d = lo - hi perturbs c by |d| eps c."""
    if abs(a) == INF or abs(b) == INF or a != a or b != b:
        return tol_log(a, b, to_float(ex))
    hi, lo = (a, b) if a >= b else (b, a)
    c = abs(to_float(ex - D(hi)))
    d = abs(lo - hi)
    return 16 * EPS * max(abs(to_float(ex)), c) + (d * EPS * c if d != INF else 0.0) + FLOOR


def tol_lde(a, b, ex):
    """log(e^a - e^b) = a + c, c = log(1 - e^d), d = b - a < 0; dc/dd = -e^d / (1 - e^d)."""
    if abs(a) == INF or abs(b) == INF or a != a or b != b or not a > b:
        return tol_log(a, b, to_float(ex))
    c = abs(to_float(ex - D(a)))
    d = b - a
    try:
        sens = 1.0 / math.expm1(-d)  # e^d / (1 - e^d)
    except OverflowError:
        sens = 0.0
    # d itself carries a rounding error of eps/2 max(|a|, |b|) when a and b are close
    dd = EPS * max(abs(a), abs(b), abs(d))
    return 16 * EPS * max(abs(to_float(ex)), c) + dd * sens + FLOOR


def judge(got, exact_dec, tol_mag, acc, cfg, op, args, domain):
    """Compare library result with exact Decimal; tolerance is absolute tol_mag."""
    acc.count("evaluations")
    want = to_float(exact_dec)
    if isinstance(got, complex) or got != got:
        if want != want:
            return
        acc.violation(driver="lattice", config=cfg, fields={"op": op, "problem": "nan"},
                      kind="nan_result", observed=got, expected=want, args=args)
        return
    if want in (INF, -INF) or got in (INF, -INF):
        if got != want:
            # allow overflow of a finite exact value beyond double range
            if abs(want) == INF and got == want:
                return
            acc.violation(driver="lattice", config=cfg, fields={"op": op, "problem": "inf"},
                          kind="precision", observed=got, expected=want, args=args)
        return
    err = abs(Decimal(got) - exact_dec)
    if err > Decimal(tol_mag) + Decimal(5e-324):
        acc.violation(driver="lattice", config=cfg, fields={"op": op, "problem": "precision"},
                      kind="precision", observed=got, expected=want, args=args,
                      err=float(err), tol=tol_mag, domain=domain)
    else:
        acc.outcome((op, repr(got)))


def call(fn, *a):
    try:
        return ("ok", fn(*a))
    except Exception as e:  # noqa: BLE001
        return ("exc", e)


def check_config(cfg, acc):
    from mici import utils as U

    kind = cfg["kind"]
    lat = log_lattice(cfg["seed"])
    with localcontext(_ctx()):
        if kind == "unary":
            for v in lat:
                dv = D(v)
                # log1p_exp
                st, got = call(U.log1p_exp, v)
                if st == "exc":
                    acc.violation(driver="lattice", config=cfg,
                                  fields={"op": "log1p_exp", "problem": type(got).__name__},
                                  kind="exception", observed=repr(got), expected="value",
                                  args=[v])
                else:
                    ex = d_log1p_exp(dv)
                    judge(got, ex, tol_rel(ex), acc, cfg, "log1p_exp", [v], "log")
                # log1m_exp (defined for v < 0; v >= 0 documented to give nan)
                st, got = call(U.log1m_exp, v)
                if v < 0:
                    if st == "exc":
                        acc.violation(driver="lattice", config=cfg,
                                      fields={"op": "log1m_exp",
                                              "problem": type(got).__name__},
                                      kind="exception", observed=repr(got), expected="value",
                                      args=[v])
                    else:
                        ex = d_log1m_exp(dv)
                        judge(got, ex, tol_rel(ex), acc, cfg, "log1m_exp", [v], "log")
        elif kind == "binary":
            a = lat[cfg["i"]]
            for b in lat:
                da, db = D(a), D(b)
                st, got = call(U.log_sum_exp, a, b)
                if st == "exc":
                    acc.violation(driver="lattice", config=cfg,
                                  fields={"op": "log_sum_exp", "problem": type(got).__name__},
                                  kind="exception", observed=repr(got), expected="value",
                                  args=[a, b])
                else:
                    ex = d_lse(da, db)
                    judge(got, ex, tol_lse(a, b, ex), acc, cfg, "log_sum_exp", [a, b], "log")
                if a >= b:
                    st, got = call(U.log_diff_exp, a, b)
                    if st == "exc":
                        acc.violation(driver="lattice", config=cfg,
                                      fields={"op": "log_diff_exp",
                                              "problem": type(got).__name__},
                                      kind="exception", observed=repr(got), expected="value",
                                      args=[a, b])
                    else:
                        ex = Decimal("-Infinity") if a == b else d_lde(da, db)
                        judge(got, ex, tol_lde(a, b, ex), acc, cfg, "log_diff_exp", [a, b],
                              "log")
                _check_logrep_pair(U, a, b, cfg, acc)
        elif kind == "mixed":
            a = lat[cfg["i"]]
            _check_logrep_mixed(U, a, cfg, acc)
        elif kind == "accumulate":
            _check_accumulate(U, cfg, acc)
    acc.count("cases")
    if len(acc.samples) < 3:
        acc.sample({"config": cfg, "lattice_head": lat[:6]})


def _check_logrep_pair(U, a, b, cfg, acc):
    """LogRepFloat (op) LogRepFloat for log-values a, b."""
    L = U.LogRepFloat
    da, db = D(a), D(b)
    x, y = L(log_val=a), L(log_val=b)
    ninf = Decimal("-Infinity")

    def rec_exc(op, e):
        acc.violation(driver="lattice", config=cfg,
                      fields={"op": op, "problem": type(e).__name__}, kind="exception",
                      observed=repr(e), expected="value", args=[a, b])

    # add
    st, r = call(lambda: x + y)
    if st == "exc":
        rec_exc("LogRep+LogRep", r)
    else:
        ex = d_lse(da, db)
        judge(r.log_val, ex, tol_lse(a, b, ex), acc, cfg, "LogRep+LogRep", [a, b], "log")
    # in-place add of the same pair (a fresh accumulator; the operand must stay untouched)
    z, w = L(log_val=a), L(log_val=b)
    st, r = call(z.__iadd__, w)
    if st == "exc":
        rec_exc("LogRep+=LogRep", r)
    elif not isinstance(r, L):
        acc.violation(driver="lattice", config=cfg,
                      fields={"op": "LogRep+=LogRep", "problem": "not_a_LogRepFloat"},
                      kind="type", observed=type(r).__name__, expected="LogRepFloat", args=[a, b])
    else:
        ex = d_lse(da, db)
        judge(r.log_val, ex, tol_lse(a, b, ex), acc, cfg, "LogRep+=LogRep", [a, b], "log")
        if w.log_val != b and not (w.log_val != w.log_val and b != b):
            acc.violation(driver="lattice", config=cfg,
                          fields={"op": "LogRep+=LogRep", "problem": "operand_modified"},
                          kind="operand_modified", observed=w.log_val, expected=b, args=[a, b])
    # mul / div
    st, r = call(lambda: x * y)
    if st == "exc":
        rec_exc("LogRep*LogRep", r)
    elif not ((a == -INF and b == INF) or (a == INF and b == -INF)):
        ex = da + db
        judge(r.log_val, ex, tol_log(a, b, to_float(ex)), acc, cfg, "LogRep*LogRep", [a, b],
              "log")
    if not (a == -INF and b == -INF):
        st, r = call(lambda: x / y)
        if st == "exc":
            rec_exc("LogRep/LogRep", r)
        else:
            ex = da - db
            judge(r.log_val, ex, tol_log(a, b, to_float(ex)), acc, cfg, "LogRep/LogRep",
                  [a, b], "log")
    # sub (a >= b gives LogRepFloat, else plain negative number)
    st, r = call(lambda: x - y)
    if st == "exc":
        rec_exc("LogRep-LogRep", r)
    elif a >= b:
        ex = ninf if a == b else d_lde(da, db)
        if not isinstance(r, L) and r != r:
            acc.violation(driver="lattice", config=cfg,
                          fields={"op": "LogRep-LogRep", "problem": "nan"}, kind="nan_result",
                          observed=r, expected=to_float(ex), args=[a, b])
            return
        lv = r.log_val if isinstance(r, L) else (math.log(r) if r > 0 else -INF)
        judge(lv, ex, tol_lde(a, b, ex), acc, cfg, "LogRep-LogRep", [a, b], "log")
    else:
        ex = d_exp(da) - d_exp(db)
        mag = max(abs(to_float(d_exp(da))), abs(to_float(d_exp(db))))
        if mag != INF:
            judge(float(r), ex, 4 * EPS * mag, acc, cfg, "LogRep-LogRep(neg)", [a, b], "lin")
    # operands are values: no operator may return (an alias of) or modify an operand
    for name, fn in (("+", lambda: x + y), ("-", lambda: x - y), ("*", lambda: x * y),
                     ("/", lambda: x / y)):
        if name == "/" and a == -INF and b == -INF:
            continue
        acc.count("evaluations")
        st, r = call(fn)
        if st == "exc" or not isinstance(r, L):
            continue
        st2, _ = call(r.__iadd__, L(log_val=0.25))
        if x.log_val != a and not (x.log_val != x.log_val and a != a) or \
                (y.log_val != b and not (y.log_val != y.log_val and b != b)):
            acc.violation(driver="lattice", config=cfg,
                          fields={"op": "LogRep" + name + "LogRep", "problem": "operand_modified"},
                          kind="operand_modified",
                          observed=[x.log_val, y.log_val], expected=[a, b], args=[a, b])
            x, y = L(log_val=a), L(log_val=b)
    # comparisons: exact order of log values
    for name, fn, ref in (("<", lambda: x < y, a < b), (">", lambda: x > y, a > b),
                          ("<=", lambda: x <= y, a <= b), (">=", lambda: x >= y, a >= b),
                          ("==", lambda: x == y, a == b), ("!=", lambda: x != y, a != b)):
        acc.count("evaluations")
        st, r = call(fn)
        if st == "exc":
            rec_exc("cmp" + name, r)
        elif bool(r) != ref:
            acc.violation(driver="lattice", config=cfg, fields={"op": "cmp" + name,
                                                                "problem": "order"},
                          kind="comparison", observed=bool(r), expected=ref, args=[a, b])


PLAIN = [0, 0.0, 1, 1.0, 2.0, 0.5, 1e-300, 1e300, 3, 1e-20, -1.0, -0.5, 7.25]


def _check_logrep_mixed(U, a, cfg, acc):
    """LogRepFloat(log a) (op) plain number, both operand orders."""
    L = U.LogRepFloat
    da = D(a)
    ea = d_exp(da)  # exact value of the LogRepFloat
    fa = to_float(ea)
    if ea != 0 and ea < Decimal(2.3e-308):
        # the plain value underflows: mixed operations are documented to go through the linear
        # representation (they return plain floats), which cannot hold it; not judged.
        acc.count("not_judged_linear_underflow")
        return
    for y in PLAIN + [float(2.0 ** (cfg["seed"] % 8 - 3))]:
        dy = D(y)
        x = L(log_val=a)
        ops = [
            ("LogRep+num", lambda: x + y, ea + dy), ("num+LogRep", lambda: y + x, dy + ea),
            ("LogRep-num", lambda: x - y, ea - dy), ("num-LogRep", lambda: y - x, dy - ea),
            ("LogRep*num", lambda: x * y, ea * dy), ("num*LogRep", lambda: y * x, dy * ea),
        ]
        if y != 0:
            ops.append(("LogRep/num", lambda: x / y, ea / dy if ea != Decimal("Infinity")
                        else ea * (1 if y > 0 else -1)))
        if ea != 0:
            ops.append(("num/LogRep", lambda: y / x, dy / ea if ea != Decimal("Infinity")
                        else Decimal(0)))
        for name, fn, ex in ops:
            if ex.is_nan() or (fa == INF and y == 0):
                continue
            st, r = call(fn)
            if st == "exc":
                acc.violation(driver="lattice", config=cfg,
                              fields={"op": name, "problem": type(r).__name__},
                              kind="exception", observed=repr(r), expected="value", args=[a, y])
                continue
            if isinstance(r, L):
                r = r.val
            want = to_float(ex)
            mag = max(abs(fa) if fa != INF else 0.0, abs(y), abs(want) if abs(want) != INF
                      else 0.0)
            if fa == INF:
                # value overflows double range in the linear domain: any inf/huge result is
                # accepted as long as it is not NaN
                acc.count("evaluations")
                if r != r:
                    acc.violation(driver="lattice", config=cfg,
                                  fields={"op": name, "problem": "nan"}, kind="nan_result",
                                  observed=r, expected=want, args=[a, y])
                continue
            judge(float(r), ex, 4 * EPS * mag, acc, cfg, name, [a, y], "lin")
        # comparisons, judged only when the exact values are separated by > 8 eps relative
        if ea != Decimal("Infinity"):
            gap = abs(ea - dy)
            sep = gap > Decimal(8 * EPS) * max(abs(ea), abs(dy))
            if sep or ea == dy:
                for name, fn, ref in (("<", lambda: x < y, ea < dy), (">", lambda: x > y, ea > dy),
                                      ("<=", lambda: x <= y, ea <= dy),
                                      (">=", lambda: x >= y, ea >= dy)):
                    if ea == dy and fa != y:
                        continue
                    acc.count("evaluations")
                    st, r = call(fn)
                    if st == "exc":
                        acc.violation(driver="lattice", config=cfg,
                                      fields={"op": "cmpnum" + name,
                                              "problem": type(r).__name__},
                                      kind="exception", observed=repr(r), expected=ref,
                                      args=[a, y])
                    elif bool(r) != bool(ref):
                        acc.violation(driver="lattice", config=cfg,
                                      fields={"op": "cmpnum" + name, "problem": "order"},
                                      kind="comparison", observed=bool(r), expected=bool(ref),
                                      args=[a, y])


ACC_ALPHA = [-INF, -1000.0, -746.0, -745.0, -37.0, -1e-10, 0.0, 0.6931471805599453, 36.5, 709.0,
             1000.0]


def _check_accumulate(U, cfg, acc):
    """All in-place accumulation sequences of length <= 3 over an 11-letter alphabet (including weights whose plain value under- / overflows) of weights;
    the k-th letter may be given as LogRepFloat or (if representable) a plain number."""
    L = U.LogRepFloat
    start = ACC_ALPHA[cfg["i"]]
    for n in (1, 2, 3):
        for seq in itertools.product(range(len(ACC_ALPHA)), repeat=n):
            for as_plain in ((False,), (True,)) if n == 1 else ((False,) * n, (True,) + (False,) * (n - 1)):
                x = L(log_val=start)
                ex = D(start)
                ok = True
                tol_sum = 0.0
                for idx, pl in zip(seq, as_plain):
                    lv = ACC_ALPHA[idx]
                    if pl:
                        try:
                            val = math.exp(lv) if lv > -INF else 0.0
                        except OverflowError:
                            ok = False
                            break
                        if val == 0.0 and lv > -INF:
                            ok = False  # not representable as a plain number
                            break
                        st, r = call(x.__iadd__, val)
                        prev, ex = ex, d_lse(ex, d_ln(D(val)))
                        tol_sum += tol_lse(to_float(prev), math.log(val) if val > 0 else -INF, ex) \
                            + 4 * EPS  # log(val) of the plain operand is rounded
                    else:
                        st, r = call(x.__iadd__, L(log_val=lv))
                        prev, ex = ex, d_lse(ex, D(lv))
                        tol_sum += tol_lse(to_float(prev), lv, ex)
                    if st == "exc":
                        acc.violation(driver="lattice", config=cfg,
                                      fields={"op": "iadd", "problem": type(r).__name__},
                                      kind="exception", observed=repr(r), expected="value",
                                      args=[start, [ACC_ALPHA[i] for i in seq], as_plain])
                        ok = False
                        break
                    x = r
                if not ok:
                    continue
                # errors of earlier steps propagate with a factor e^a / (e^a + e^b) <= 1
                judge(x.log_val, ex, tol_sum,
                      acc, cfg, "iadd_seq", [start, [ACC_ALPHA[i] for i in seq], as_plain],
                      "log")
                acc.count("sequences")
    # long accumulations: runs of n equal weights added one at a time (trajectory weights are
    # accumulated over thousands of states); exact value ln(e^start + n e^lv)
    for lv in ACC_ALPHA:
        for n in cfg.get("runs", (1000,)):
            if lv == -INF and n > 1000:
                continue
            x = L(log_val=start)
            w = L(log_val=lv)
            st = "ok"
            for _ in range(n):
                st, r = call(x.__iadd__, w)
                if st == "exc":
                    break
                x = r
            if st == "exc":
                acc.violation(driver="lattice", config=cfg,
                              fields={"op": "iadd_run", "problem": type(r).__name__},
                              kind="exception", observed=repr(r), expected="value",
                              args=[start, lv, n])
                continue
            ex = d_lse(D(start), D(lv) + d_ln(D(n))) if lv != -INF else D(start)
            # per step: rounding relative to max(|running log value|, correction) <= the largest
            # of |start|, |final|, ln 2; n steps, propagated with factors <= 1
            mag = max(abs(start) if start != -INF else 0.0, abs(to_float(ex)),
                      abs(lv) if start == -INF and lv != -INF else 0.0)
            corr = abs(to_float(ex - D(start))) if start != -INF else math.log(2.0)
            tol = n * 2 * EPS * max(mag, min(corr, math.log(2.0))) + \
                (n * EPS * abs(lv - start) * corr if -INF < start and -INF < lv else 0.0) + n * FLOOR
            if w.log_val != lv:
                acc.violation(driver="lattice", config=cfg,
                              fields={"op": "iadd_run", "problem": "operand_modified"},
                              kind="operand_modified", observed=w.log_val, expected=lv,
                              args=[start, lv, n])
                continue
            judge(x.log_val, ex, tol, acc, cfg, "iadd_run", [start, lv, n], "log")
            acc.count("sequences")


def configs(tier, seed):
    cfgs = []
    # each seed value selects one of 8 extra-point alphabets; thorough covers all eight
    for sd in ((seed,) if tier == "quick" else tuple(seed + j for j in range(8))):
        n = len(log_lattice(sd))
        cfgs += [{"kind": "unary", "seed": sd}]
        cfgs += [{"kind": "binary", "i": i, "seed": sd} for i in range(n)]
        cfgs += [{"kind": "mixed", "i": i, "seed": sd} for i in range(n)]
    cfgs += [{"kind": "accumulate", "i": i, "seed": seed,
              "runs": [1000, 20000] if tier == "quick" else [1000, 20000, 200000]}
             for i in range(len(ACC_ALPHA))]
    return cfgs


def run(tier, seed, acc):
    cfgs = configs(tier, seed)
    run_lattice(MOD, cfgs, acc)
    cov = {
        "evaluations": acc.counts.get("evaluations", 0),
        "distinct_nontrivial": len(acc.outcomes),
        "rule": "lattice of log-values spanning the double range incl. 1-ulp neighbours of every "
                "branch point; all unary helpers on the lattice, all binary helpers and "
                "LogRepFloat operators on lattice^2, mixed operations with 14 plain numbers in "
                "both operand orders, all in-place accumulation sequences of length <= 3 over 8 "
                "weights; oracle: decimal arithmetic at 130 digits with series for tiny arguments (self-tested against 800-digit brute force); distinct = distinct "
                "(operator, result) pairs",
        "exhaustive": True,
        "bounds": {"lattice_points": len(log_lattice(seed)), "decimal_digits": WORK_PREC},
    }
    return cov, ["decimal module arithmetic; fast oracle self-tested against brute force at 800 digits (tests/test_c20_oracle.py)",
                 "tolerance: 8 eps * max(1, |operands|, |result|) in the log domain; 4 eps * "
                 "max magnitude in the linear domain; mixed comparisons judged only when the "
                 "exact values differ by more than 8 eps relative"]


def replay(rec):
    return replay_lattice(MOD, rec)
