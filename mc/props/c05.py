"""C05 - Hamiltonian values and derivative methods of every system are consistent.

Complete product of system class x metric type x return convention x dimension at the zoo's state
lattice, compared with dense references of the documented formulas and central differences of them.
"""

from __future__ import annotations

import numpy as np

from mc import zoo
from mc.lattice import replay_lattice, run_lattice
from mc.oracles import close, fd_grad, maxerr

MOD = "mc.props.c05"


LARGE = [{"mode": "large", "kind": kind, "d": d, "scale": scale}
         for kind in ("cholesky", "dense", "constrained_lebesgue")
         for d, scale in ((60, 1e6), (60, 1e-6), (400, 0.05), (400, 30.0), (6, 0.05))]


def configs(tier, seed):
    if tier == "quick":
        return zoo.system_configs(seed, tier, derived_metrics=True) + \
            [dict(c, seed=seed) for c in LARGE]
    # thorough: three parameter variants of every metric / constraint / state lattice
    out = []
    for sd in (seed, seed + 3, seed + 5):
        out += zoo.system_configs(sd, tier, derived_metrics=True)
    return out + [dict(c, seed=seed) for c in LARGE]


def check_large(cfg, acc):
    """Hamiltonian VALUES of systems of dimension 60 / 400 whose metric / Gram determinant leaves
    the double range although its logarithm is an ordinary number."""
    from mici import systems as S

    d, scale, kind = cfg["d"], cfg["scale"], cfg["kind"]
    k = np.arange(d)

    def chol(q):
        return np.diag(scale * (1.0 + 0.3 * np.cos(k + q[0]))) + \
            0.01 * scale * np.tril(np.sin(np.add.outer(k, 2.0 * k) + q[1]), -1)

    def nld(q):
        return 0.5 * float(q @ q)

    q = 0.1 * np.cos(k + 0.3 * cfg["seed"])
    p = 0.2 * np.sin(1.0 + k)
    L = chol(q)
    Mq = L @ L.T
    if kind == "cholesky":
        system = S.CholeskyFactoredRiemannianMetricSystem(
            nld, chol, grad_neg_log_dens=lambda x: x,
            vjp_metric_chol_func=lambda x: (lambda v: np.zeros_like(x)))
        h1_ref = nld(q) + 0.5 * np.linalg.slogdet(Mq)[1]
        h2_ref = 0.5 * p @ np.linalg.solve(Mq, p)
    elif kind == "dense":
        system = S.DenseRiemannianMetricSystem(
            nld, lambda x: chol(x) @ chol(x).T, grad_neg_log_dens=lambda x: x,
            vjp_metric_func=lambda x: (lambda v: np.zeros_like(x)))
        h1_ref = nld(q) + 0.5 * np.linalg.slogdet(Mq)[1]
        h2_ref = 0.5 * p @ np.linalg.solve(Mq, p)
    else:  # many linear constraints of small / large scale, density w.r.t. Lebesgue measure
        nc = d // 2
        Jc = scale * (np.eye(nc, d) + 0.01 * np.sin(np.add.outer(np.arange(nc), k)))
        system = S.DenseConstrainedEuclideanMetricSystem(
            nld, lambda x: Jc @ x, dens_wrt_hausdorff=False, grad_neg_log_dens=lambda x: x,
            jacob_constr=lambda x: Jc,
            mhp_constr=lambda x: (lambda m: np.zeros_like(x)))
        h1_ref = nld(q) + 0.5 * np.linalg.slogdet(Jc @ Jc.T)[1]
        h2_ref = 0.5 * p @ p
    F = {"class": type(system).__name__, "metric": f"large:{kind}"}
    st = zoo.mk_state(q, p)
    for meth, ref in (("h1", h1_ref), ("h2", h2_ref), ("h", h1_ref + h2_ref)):
        acc.count("evaluations")
        try:
            got = float(getattr(system, meth)(st))
        except Exception as e:  # noqa: BLE001
            acc.violation(driver="large", config=cfg, fields={**F, "method": meth,
                                                              "exception": type(e).__name__},
                          kind="exception", observed=repr(e)[:200], expected=float(ref))
            continue
        if not np.isfinite(got) or abs(got - ref) > 1e-8 * (1.0 + abs(ref)):
            acc.violation(driver="large", config=cfg, fields={**F, "method": meth},
                          kind="value_mismatch", observed=got, expected=float(ref))
        else:
            acc.outcome((F["class"], "large", meth, d, scale))
    acc.count("cases")


def check_config(cfg, acc):
    if cfg.get("mode") == "large":
        check_large(cfg, acc)
        return
    case = zoo.build_case(cfg)
    S = case.system
    sts = zoo.states(case.d, cfg.get("seed", 0), 4 if cfg.get("tier") == "thorough" else 3)
    if case.constraint is not None:
        sts = sts[:2] + zoo.on_manifold_states(case, cfg.get("seed", 0), 2)
    cls = type(S).__name__
    base_fields = {"class": cls, "metric": cfg.get("metric", cfg.get("kind"))}
    for si, (q, p) in enumerate(sts):
        refs = {
            "h1": lambda: case.h1_ref(q),
            "h2": lambda: case.h2_ref(q, p),
            "h": lambda: case.h1_ref(q) + case.h2_ref(q, p),
            "dh1_dpos": lambda: fd_grad(case.h1_ref, q),
            "dh2_dpos": lambda: fd_grad(lambda x: case.h2_ref(x, p), q),
            "dh2_dmom": lambda: fd_grad(lambda x: case.h2_ref(q, x), p),
            "dh_dpos": lambda: fd_grad(lambda x: case.h1_ref(x) + case.h2_ref(x, p), q),
            "dh_dmom": lambda: fd_grad(lambda x: case.h2_ref(q, x), p),
        }
        vals = {}
        for meth, ref in refs.items():
            acc.count("evaluations")
            try:
                state = zoo.mk_state(q, p)
                got = getattr(S, meth)(state)
                vals[meth] = np.array(got, dtype=float)
            except Exception as e:  # noqa: BLE001
                acc.violation(driver="lattice", config=cfg,
                              fields={**base_fields, "method": meth,
                                      "exception": type(e).__name__},
                              kind="exception", observed=repr(e)[:300], expected="a value",
                              state=si)
                continue
            want = np.asarray(ref(), dtype=float)
            is_val = meth in ("h", "h1", "h2")
            ok = close(vals[meth], want, 1e-9 if is_val else 2e-6, 1e-9 if is_val else 1e-7)
            if not ok:
                acc.violation(driver="lattice", config=cfg,
                              fields={**base_fields, "method": meth}, kind="value_mismatch",
                              observed=vals[meth], expected=want, state=si,
                              err=maxerr(vals[meth], want))
            else:
                acc.outcome((cls, meth, round(float(np.sum(vals[meth])), 6)))
        # sum rules, exact to rounding
        if all(k in vals for k in ("h", "h1", "h2")):
            if not close(vals["h"], vals["h1"] + vals["h2"], 1e-12, 1e-12):
                acc.violation(driver="lattice", config=cfg,
                              fields={**base_fields, "method": "h=h1+h2"}, kind="sum_rule",
                              observed=vals["h"], expected=vals["h1"] + vals["h2"], state=si)
        if all(k in vals for k in ("dh_dpos", "dh1_dpos", "dh2_dpos")):
            if not close(vals["dh_dpos"], vals["dh1_dpos"] + vals["dh2_dpos"], 1e-12, 1e-12):
                acc.violation(driver="lattice", config=cfg,
                              fields={**base_fields, "method": "dh_dpos=dh1_dpos+dh2_dpos"},
                              kind="sum_rule", observed=vals["dh_dpos"],
                              expected=vals["dh1_dpos"] + vals["dh2_dpos"], state=si)
        if all(k in vals for k in ("dh_dmom", "dh2_dmom")):
            if not close(vals["dh_dmom"], vals["dh2_dmom"], 1e-12, 1e-12):
                acc.violation(driver="lattice", config=cfg,
                              fields={**base_fields, "method": "dh_dmom=dh2_dmom"},
                              kind="sum_rule", observed=vals["dh_dmom"],
                              expected=vals["dh2_dmom"], state=si)
    # the same methods on a RE-USED state: evaluate everything at (q0, p0), then move the state to
    # (q1, p0) and to (q1, p1) by assignment and compare with the references at the new point
    if len(sts) >= 2:
        (q0, p0), (q1, p1) = sts[0], sts[1]
        state = zoo.mk_state(q0, p0)
        meths = ("h1", "h2", "h", "dh1_dpos", "dh2_dpos", "dh2_dmom", "dh_dpos", "dh_dmom")
        try:
            for m in meths:
                getattr(S, m)(state)
            for (qa, pa, label) in ((q1, p0, "after_pos_assignment"),
                                    (q1, p1, "after_mom_assignment")):
                if label == "after_pos_assignment":
                    state.pos = np.array(qa)
                else:
                    state.mom = np.array(pa)
                fresh = zoo.mk_state(qa, pa)
                for m in meths:
                    acc.count("evaluations")
                    got = np.asarray(getattr(S, m)(state), dtype=float)
                    want = np.asarray(getattr(S, m)(fresh), dtype=float)
                    if not close(got, want, 1e-12, 1e-12):
                        acc.violation(driver="lattice", config=cfg,
                                      fields={**base_fields, "method": m, "reuse": label},
                                      kind="value_differs_on_reused_state", observed=got,
                                      expected=want)
        except Exception as e:  # noqa: BLE001
            acc.violation(driver="lattice", config=cfg,
                          fields={**base_fields, "method": "reuse",
                                  "exception": type(e).__name__},
                          kind="exception", observed=repr(e)[:300], expected="values")
    acc.count("cases")
    if len(acc.samples) < 3:
        acc.sample({"config": cfg, "state0": [sts[0][0], sts[0][1]]})


def run(tier, seed, acc):
    cfgs = configs(tier, seed)
    for c in cfgs:
        c["tier"] = tier
    run_lattice(MOD, cfgs, acc)
    cov = {
        "evaluations": acc.counts.get("evaluations", 0),
        "distinct_nontrivial": len(acc.outcomes),
        "rule": "complete product of system class x constant-metric type (or Riemannian family) x "
                "target x return convention x dimension 1..3, each at 3-4 lattice states; every "
                "value/derivative method compared with a dense NumPy reference of the documented "
                "formula or its central difference; plus Hamiltonian values of Cholesky / dense "
                "Riemannian and Lebesgue-density constrained systems of dimension 60 / 400 whose "
                "determinants leave the double range; distinct = distinct (class, method, value)",
        "exhaustive": True,
        "bounds": {"configs": len(cfgs), "tier": tier},
    }
    return cov, ["zoo derivatives self-tested by finite differences (tests/test_zoo.py)",
                 "continuous inputs restricted to the zoo lattice (shifted by VERIF_SEED)"]


def replay(rec):
    return replay_lattice(MOD, rec)
