"""C05 - Hamiltonian values and derivative methods of every system are consistent.

Complete product of system class x metric type x return convention x dimension at the zoo's state
lattice, compared with dense references of the documented formulas and central differences of them.
"""

from __future__ import annotations

import numpy as np

from mc import zoo
from mc.lattice import replay_lattice, run_lattice
from mc.oracles import close, fd_grad, maxerr

MOD = "mc.props.c05"


def configs(tier, seed):
    if tier == "quick":
        return zoo.system_configs(seed, tier, derived_metrics=True)
    # thorough: three parameter variants of every metric / constraint / state lattice
    out = []
    for sd in (seed, seed + 3, seed + 5):
        out += zoo.system_configs(sd, tier, derived_metrics=True)
    return out


def check_config(cfg, acc):
    case = zoo.build_case(cfg)
    S = case.system
    sts = zoo.states(case.d, cfg.get("seed", 0), 4 if cfg.get("tier") == "thorough" else 3)
    if case.constraint is not None:
        sts = sts[:2] + zoo.on_manifold_states(case, cfg.get("seed", 0), 2)
    cls = type(S).__name__
    base_fields = {"class": cls, "metric": cfg.get("metric", cfg.get("kind"))}
    for si, (q, p) in enumerate(sts):
        refs = {
            "h1": lambda: case.h1_ref(q),
            "h2": lambda: case.h2_ref(q, p),
            "h": lambda: case.h1_ref(q) + case.h2_ref(q, p),
            "dh1_dpos": lambda: fd_grad(case.h1_ref, q),
            "dh2_dpos": lambda: fd_grad(lambda x: case.h2_ref(x, p), q),
            "dh2_dmom": lambda: fd_grad(lambda x: case.h2_ref(q, x), p),
            "dh_dpos": lambda: fd_grad(lambda x: case.h1_ref(x) + case.h2_ref(x, p), q),
            "dh_dmom": lambda: fd_grad(lambda x: case.h2_ref(q, x), p),
        }
        vals = {}
        for meth, ref in refs.items():
            acc.count("evaluations")
            try:
                state = zoo.mk_state(q, p)
                got = getattr(S, meth)(state)
                vals[meth] = np.array(got, dtype=float)
            except Exception as e:  # noqa: BLE001
                acc.violation(driver="lattice", config=cfg,
                              fields={**base_fields, "method": meth,
                                      "exception": type(e).__name__},
                              kind="exception", observed=repr(e)[:300], expected="a value",
                              state=si)
                continue
            want = np.asarray(ref(), dtype=float)
            is_val = meth in ("h", "h1", "h2")
            ok = close(vals[meth], want, 1e-9 if is_val else 2e-6, 1e-9 if is_val else 1e-7)
            if not ok:
                acc.violation(driver="lattice", config=cfg,
                              fields={**base_fields, "method": meth}, kind="value_mismatch",
                              observed=vals[meth], expected=want, state=si,
                              err=maxerr(vals[meth], want))
            else:
                acc.outcome((cls, meth, round(float(np.sum(vals[meth])), 6)))
        # sum rules, exact to rounding
        if all(k in vals for k in ("h", "h1", "h2")):
            if not close(vals["h"], vals["h1"] + vals["h2"], 1e-12, 1e-12):
                acc.violation(driver="lattice", config=cfg,
                              fields={**base_fields, "method": "h=h1+h2"}, kind="sum_rule",
                              observed=vals["h"], expected=vals["h1"] + vals["h2"], state=si)
        if all(k in vals for k in ("dh_dpos", "dh1_dpos", "dh2_dpos")):
            if not close(vals["dh_dpos"], vals["dh1_dpos"] + vals["dh2_dpos"], 1e-12, 1e-12):
                acc.violation(driver="lattice", config=cfg,
                              fields={**base_fields, "method": "dh_dpos=dh1_dpos+dh2_dpos"},
                              kind="sum_rule", observed=vals["dh_dpos"],
                              expected=vals["dh1_dpos"] + vals["dh2_dpos"], state=si)
        if all(k in vals for k in ("dh_dmom", "dh2_dmom")):
            if not close(vals["dh_dmom"], vals["dh2_dmom"], 1e-12, 1e-12):
                acc.violation(driver="lattice", config=cfg,
                              fields={**base_fields, "method": "dh_dmom=dh2_dmom"},
                              kind="sum_rule", observed=vals["dh_dmom"],
                              expected=vals["dh2_dmom"], state=si)
    # the same methods on a RE-USED state: evaluate everything at (q0, p0), then move the state to
    # (q1, p0) and to (q1, p1) by assignment and compare with the references at the new point
    if len(sts) >= 2:
        (q0, p0), (q1, p1) = sts[0], sts[1]
        state = zoo.mk_state(q0, p0)
        meths = ("h1", "h2", "h", "dh1_dpos", "dh2_dpos", "dh2_dmom", "dh_dpos", "dh_dmom")
        try:
            for m in meths:
                getattr(S, m)(state)
            for (qa, pa, label) in ((q1, p0, "after_pos_assignment"),
                                    (q1, p1, "after_mom_assignment")):
                if label == "after_pos_assignment":
                    state.pos = np.array(qa)
                else:
                    state.mom = np.array(pa)
                fresh = zoo.mk_state(qa, pa)
                for m in meths:
                    acc.count("evaluations")
                    got = np.asarray(getattr(S, m)(state), dtype=float)
                    want = np.asarray(getattr(S, m)(fresh), dtype=float)
                    if not close(got, want, 1e-12, 1e-12):
                        acc.violation(driver="lattice", config=cfg,
                                      fields={**base_fields, "method": m, "reuse": label},
                                      kind="value_differs_on_reused_state", observed=got,
                                      expected=want)
        except Exception as e:  # noqa: BLE001
            acc.violation(driver="lattice", config=cfg,
                          fields={**base_fields, "method": "reuse",
                                  "exception": type(e).__name__},
                          kind="exception", observed=repr(e)[:300], expected="values")
    acc.count("cases")
    if len(acc.samples) < 3:
        acc.sample({"config": cfg, "state0": [sts[0][0], sts[0][1]]})


def run(tier, seed, acc):
    cfgs = configs(tier, seed)
    for c in cfgs:
        c["tier"] = tier
    run_lattice(MOD, cfgs, acc)
    cov = {
        "evaluations": acc.counts.get("evaluations", 0),
        "distinct_nontrivial": len(acc.outcomes),
        "rule": "complete product of system class x constant-metric type (or Riemannian family) x "
                "target x return convention x dimension 1..3, each at 3-4 lattice states; every "
                "value/derivative method compared with a dense NumPy reference of the documented "
                "formula or its central difference; distinct = distinct (class, method, value)",
        "exhaustive": True,
        "bounds": {"configs": len(cfgs), "tier": tier},
    }
    return cov, ["zoo derivatives self-tested by finite differences (tests/test_zoo.py)",
                 "continuous inputs restricted to the zoo lattice (shifted by VERIF_SEED)"]


def replay(rec):
    return replay_lattice(MOD, rec)
