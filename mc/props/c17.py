"""C17 - adapters compute the estimators they document for any history.

* dual averaging: all accept-statistic sequences over a 4-letter alphabet up to length 6 x settings
  lattice against a reference recursion; finalize = exp(smoothed iterate), every reducer.
* initial step-size search (E1 over environment tables): the energy change at step size 2^k is
  read from a table over k in -3..3 with letters {small, large, NaN, step fails}; all 4^7 tables.
* variance / covariance adapters: all sequences of <= 5 positions from a 4-vector alphabet, all
  ordered set partitions into <= 3 chains; oracle = exact rational arithmetic.
"""

from __future__ import annotations

import itertools
import math
from fractions import Fraction

import numpy as np

from mc.lattice import replay_lattice, run_lattice

MOD = "mc.props.c17"
ACC_ALPHA = (0.0, 0.25, 0.8, 1.0)
LOG2 = math.log(2)


class StubIntegrator:
    def __init__(self, step_size=None):
        self.step_size = step_size


class StubTransition:
    def __init__(self, integrator, system=None):
        self.integrator = integrator
        self.system = system


# ---------------------------------------------------------------------------------------------
# dual averaging
# ---------------------------------------------------------------------------------------------


def ref_dual_averaging(seq, target, reg_target, reg_coeff, decay, offset):
    """Reference of the documented recursion; returns per-iteration step sizes and final."""
    err = 0.0
    smoothed = 0.0
    steps = []
    for i, a in enumerate(seq, start=1):
        w = 1.0 / (offset + i)
        err = (1 - w) * err + w * (target - a)
        log_eps = reg_target - err * math.sqrt(i) / reg_coeff
        sw = i ** (-decay)
        smoothed = (1 - sw) * smoothed + sw * log_eps
        steps.append(math.exp(log_eps))
    return steps, smoothed


def check_dual(cfg, acc):
    from mici import adapters as A

    target, reg_coeff, decay, offset, reg_target = (cfg["target"], cfg["reg_coeff"],
                                                    cfg["decay"], cfg["offset"],
                                                    cfg["reg_target"])
    F = {"adapter": "DualAveragingStepSizeAdapter"}

    def viol(what, obs, exp, **kw):
        acc.violation(driver="dual", config=cfg, fields={**F, "what": what}, kind="estimator",
                      observed=obs, expected=exp, **kw)

    finals = {}
    for n in range(1, cfg["max_len"] + 1):
        for seq in itertools.product(ACC_ALPHA, repeat=n):
            acc.count("evaluations")
            ad = A.DualAveragingStepSizeAdapter(
                adapt_stat_target=target, log_step_size_reg_target=reg_target,
                log_step_size_reg_coefficient=reg_coeff, iter_decay_coeff=decay,
                iter_offset=offset)
            # the adapter state comes from the real initialize(): the environment table makes
            # the initial search return step size 2 (small change at 1, large at 2)
            table = lambda k: "small" if k < 1 else "large"  # noqa: E731
            integ = TableIntegrator(table)
            tr = StubTransition(integ, TableSystem(table))
            from mici.states import ChainState
            state = ad.initialize(ChainState(pos=np.zeros(1), mom=np.zeros(1), dir=1, tag=None),
                                  tr)
            if integ.step_size != 2:
                viol("initial_step_size", integ.step_size, 2)
                return
            eff_reg_target = math.log(10 * 2) if reg_target is None else reg_target
            steps_ref, smoothed_ref = ref_dual_averaging(seq, target, eff_reg_target, reg_coeff,
                                                         decay, offset)
            ok = True
            for i, a in enumerate(seq):
                ad.update(state, None, {"accept_stat": a}, tr)
                got = integ.step_size
                if not (got > 0 and math.isfinite(got)) or \
                        abs(got - steps_ref[i]) > 1e-12 * steps_ref[i]:
                    viol("update_step_size", got, steps_ref[i], seq=list(seq), i=i)
                    ok = False
                    break
            if not ok:
                return
            ad.finalize(state, None, tr, None)
            want = math.exp(smoothed_ref)
            if abs(integ.step_size - want) > 1e-12 * want:
                viol("finalize_single_chain", integ.step_size, want, seq=list(seq))
                return
            if n == cfg["max_len"] or n <= 2:
                finals[seq] = state["smoothed_log_step_size"]
            acc.outcome(("dual", target, reg_coeff, decay, offset, round(want, 12)))
    # one adapter object shared by several chains / re-initialised for a later stage (what
    # sample_chains does): each chain's iterates follow the recursion with ITS OWN initial step
    # size in the default regularisation target; interleaving of the chains' updates is free
    from mici.states import ChainState
    TABLES = {"2": lambda k: "small" if k < 1 else "large",
              "1/4": lambda k: "small" if k < -2 else "large",
              "8": lambda k: "small" if k < 3 else "large"}
    for names in itertools.chain(itertools.permutations(TABLES, 2),
                                 itertools.permutations(TABLES, 3), [("2", "2")]):
        for seq in itertools.product(ACC_ALPHA, repeat=min(3, cfg["max_len"])):
            for order in ("round_robin", "chain_by_chain"):
                acc.count("evaluations")
                ad = A.DualAveragingStepSizeAdapter(
                    adapt_stat_target=target, log_step_size_reg_target=reg_target,
                    log_step_size_reg_coefficient=reg_coeff, iter_decay_coeff=decay,
                    iter_offset=offset)
                trs, sts, inits = [], [], []
                for nm in names:
                    integ = TableIntegrator(TABLES[nm])
                    tr = StubTransition(integ, TableSystem(TABLES[nm]))
                    sts.append(ad.initialize(
                        ChainState(pos=np.zeros(1), mom=np.zeros(1), dir=1, tag=None), tr))
                    trs.append(tr)
                    inits.append(integ.step_size)
                refs = [ref_dual_averaging(
                    seq, target, math.log(10 * e0) if reg_target is None else reg_target,
                    reg_coeff, decay, offset) for e0 in inits]
                sched = [(c, i) for i in range(len(seq)) for c in range(len(names))] \
                    if order == "round_robin" else \
                    [(c, i) for c in range(len(names)) for i in range(len(seq))]
                bad = False
                for c, i in sched:
                    ad.update(sts[c], None, {"accept_stat": seq[i]}, trs[c])
                    got, want = trs[c].integrator.step_size, refs[c][0][i]
                    if not (got > 0 and math.isfinite(got)) or abs(got - want) > 1e-12 * want:
                        viol("shared_adapter_chain_does_not_follow_its_own_recursion", got, want,
                             chains=list(names), initial_step_sizes=inits, seq=list(seq),
                             chain=c, i=i, order=order)
                        bad = True
                        break
                if bad:
                    return
                ad.finalize(sts, None, trs[0], None)
                want = sum(math.exp(r[1]) for r in refs) / len(refs)
                if abs(trs[0].integrator.step_size - want) > 1e-12 * want:
                    viol("shared_adapter_finalize", trs[0].integrator.step_size, want,
                         chains=list(names), seq=list(seq), order=order)
                    return
                acc.outcome(("dual_shared", names, target, reg_coeff, decay, offset,
                             round(want, 12)))
    # reducers across 1..3 chains
    keys = sorted(finals)[:: max(1, len(finals) // 40)]
    vals = [finals[k] for k in keys]
    reducers = {
        "arithmetic": (A.arithmetic_mean_log_step_size_reducer,
                       lambda ls: sum(math.exp(x) for x in ls) / len(ls)),
        "geometric": (A.geometric_mean_log_step_size_reducer,
                      lambda ls: math.exp(sum(ls) / len(ls))),
        "min": (A.min_log_step_size_reducer, lambda ls: math.exp(min(ls))),
        "default": (None, lambda ls: sum(math.exp(x) for x in ls) / len(ls)),
    }
    for n_chain in (1, 2, 3):
        for combo in itertools.combinations(vals[:12], n_chain):
            for rname, (rfn, rref) in reducers.items():
                acc.count("evaluations")
                ad = A.DualAveragingStepSizeAdapter(log_step_size_reducer=rfn)
                integ = StubIntegrator(0.5)
                states = [{"smoothed_log_step_size": x} for x in combo]
                ad.finalize(states, None, StubTransition(integ), None)
                want = rref(list(combo))
                if abs(integ.step_size - want) > 1e-12 * want:
                    viol("finalize_reducer:" + rname, integ.step_size, want, logs=list(combo))
                    return


# ---------------------------------------------------------------------------------------------
# initial step size search over environment tables
# ---------------------------------------------------------------------------------------------

LETTERS = ("small", "large", "nan", "fail")


class TableSystem:
    def __init__(self, table):
        self.table = table

    def h(self, state):
        if getattr(state, "tag", None) is None:
            return 10.0
        letter = self.table(state.tag)
        if letter == "small":
            return 10.0 + 0.1
        if letter == "large":
            return 10.0 + 5.0
        return float("nan")


class TableIntegrator:
    def __init__(self, table):
        self.table = table
        self.step_size = None
        self.tried = []

    def step(self, state):
        from mici.errors import ConvergenceError
        from mici.states import ChainState

        k = math.log2(self.step_size)
        self.tried.append(self.step_size)
        if self.table(k) == "fail":
            raise ConvergenceError("table")
        return ChainState(pos=np.zeros(1), mom=np.zeros(1), dir=1, tag=k)


def check_search(cfg, acc):
    from mici import adapters as A
    from mici.errors import AdaptationError
    from mici.states import ChainState

    F = {"adapter": "DualAveragingStepSizeAdapter"}

    def viol(what, obs, exp, **kw):
        acc.violation(driver="search", config=cfg, fields={**F, "what": what},
                      kind="initial_search", observed=obs, expected=exp, **kw)

    first = cfg["first_letters"]
    for rest in itertools.product(range(4), repeat=7 - len(first)):
        code = list(first) + list(rest)  # letters for k = -3..3

        def table(k, code=code):
            k = int(round(k))
            if k < -3:
                return "small"
            if k > 3:
                return "large"
            return LETTERS[code[k + 3]]

        acc.count("evaluations")
        ad = A.DualAveragingStepSizeAdapter(max_init_step_size_iters=20)
        integ = TableIntegrator(table)
        system = TableSystem(table)
        st = ChainState(pos=np.zeros(1), mom=np.zeros(1), dir=1, tag=None)
        try:
            eps = ad._find_and_set_init_step_size(st, system, integ)  # noqa: SLF001
        except AdaptationError:
            acc.count("search_refused")
            # within budget a crossing always exists in this table family (small below -3,
            # large above 3), so a refusal means the budget was exhausted oscillating
            acc.outcome(("search", "refused", tuple(code)))
            continue
        except Exception as e:  # noqa: BLE001
            viol("raises:" + type(e).__name__, repr(e)[:200], "step size or AdaptationError",
                 table=[LETTERS[c] for c in code])
            continue
        k = math.log2(eps)

        def too_big(kk):
            return table(kk) in ("large", "nan", "fail")

        # crossing: eps is acceptable (small) and 2 eps is too big, or eps is too big (a finite
        # large change) and eps / 2 is acceptable
        ok = (table(k) == "small" and too_big(k + 1)) or \
             (table(k) == "large" and table(k - 1) == "small")
        if not ok or integ.step_size != eps:
            viol("no_crossing_at_returned_step_size",
                 {"eps": eps, "letter_at_eps": table(k), "at_2eps": table(k + 1),
                  "at_half_eps": table(k - 1), "tried": integ.tried},
                 "energy change crosses log 2 between the returned and a neighbouring size",
                 table=[LETTERS[c] for c in code])
        else:
            acc.outcome(("search", k))


# ---------------------------------------------------------------------------------------------
# variance / covariance adapters
# ---------------------------------------------------------------------------------------------

POS_ALPHA = {
    "plain": [np.array([0.5, -0.25]), np.array([-1.0, 0.75]), np.array([0.25, 1.5]),
              np.array([2.0, -0.5])],
    "offset": [np.array([1e6 + 0.5, -1e6 - 0.25]), np.array([1e6 - 1.0, -1e6 + 0.75]),
               np.array([1e6 + 0.25, -1e6 + 1.5]), np.array([1e6 + 2.0, -1e6 - 0.5])],
}


def ordered_partitions(n, max_blocks):
    """All assignments of n ordered items to chains 0..b-1 (every chain non-empty, every chain
    order = subsequence order), for b = 1..max_blocks, and all orders of chains."""
    for b in range(1, max_blocks + 1):
        for assign in itertools.product(range(b), repeat=n):
            if len(set(assign)) == b:
                yield b, assign


def exact_pooled(points, reg_offset, reg_scale, full):
    F = Fraction
    n = len(points)
    d = len(points[0])
    X = [[F(float(v)) for v in p] for p in points]
    mean = [sum(x[j] for x in X) / n for j in range(d)]
    if full:
        C = [[sum((x[i] - mean[i]) * (x[j] - mean[j]) for x in X) / (n - 1) for j in range(d)]
             for i in range(d)]
        w = F(n) / (reg_offset + n)
        C = [[C[i][j] * w for j in range(d)] for i in range(d)]
        for i in range(d):
            C[i][i] += F(reg_scale) * F(reg_offset) / (reg_offset + n)
        return np.array([[float(C[i][j]) for j in range(d)] for i in range(d)])
    v = [sum((x[j] - mean[j]) ** 2 for x in X) / (n - 1) for j in range(d)]
    if reg_offset:
        v = [vj * F(n) / (reg_offset + n) + F(reg_scale) * F(reg_offset) / (reg_offset + n)
             for vj in v]
    return np.array([float(vj) for vj in v])


class MetricSystem:
    def __init__(self):
        self.metric = None

    def sample_momentum(self, state, rng):
        return self.metric.sqrt @ rng.standard_normal(state.pos.shape)


def check_metric_adapter(cfg, acc):
    from mici import adapters as A
    from mici.errors import AdaptationError
    from mici.states import ChainState
    from mc.script_rng import BasisRng

    full = cfg["adapter"] == "covar"
    alpha = POS_ALPHA[cfg["alphabet"]]
    reg_offset, reg_scale = cfg["reg"]
    F = {"adapter": "OnlineCovarianceMetricAdapter" if full else "OnlineVarianceMetricAdapter"}

    def viol(what, obs, exp, **kw):
        acc.violation(driver="metric", config=cfg, fields={**F, "what": what}, kind="estimator",
                      observed=obs, expected=exp, **kw)

    spread = 2.0
    offs = max(abs(float(alpha[0][0])), 1.0)
    tol = 1e-9 * (1 + (offs / spread) ** 2 * 2.2e-16 * 1e3)
    for n in range(2, cfg["max_len"] + 1):
        for seq in itertools.product(range(len(alpha)), repeat=n):
            if len(set(seq)) < 2:
                continue  # zero variance: metric undefined without regularisation
            pts = [alpha[i] for i in seq]
            ref = exact_pooled(pts, reg_offset, reg_scale, full)
            for b, assign in ordered_partitions(n, cfg["max_chains"]):
                acc.count("evaluations")
                cls = A.OnlineCovarianceMetricAdapter if full else A.OnlineVarianceMetricAdapter
                ad = cls(reg_iter_offset=reg_offset, reg_scale=reg_scale)
                system = MetricSystem()
                tr = StubTransition(None, system)
                states = []
                chain_states = []
                for c in range(b):
                    cs = ChainState(pos=np.zeros(2), mom=np.zeros(2), dir=1)
                    st = ad.initialize(cs, tr)
                    for i, a in zip(seq, assign):
                        if a == c:
                            cs.pos = alpha[i].copy()
                            ad.update(st, cs, None, tr)
                    states.append(st)
                    chain_states.append(cs)
                zs = [np.array([0.7, -1.3]) * (c + 1) for c in range(b)]
                rngs = [BasisRng(z) for z in zs]
                try:
                    if b == 1 and cfg.get("single_as_dict", True):
                        ad.finalize(states[0], chain_states[0], tr, rngs[0])
                    else:
                        ad.finalize(states, chain_states, tr, rngs)
                except AdaptationError:
                    viol("unexpected_adaptation_error", "AdaptationError", "a metric",
                         seq=list(seq), assign=list(assign))
                    return
                except Exception as e:  # noqa: BLE001
                    viol("raises:" + type(e).__name__, repr(e)[:200], "a metric",
                         seq=list(seq), assign=list(assign))
                    return
                M = np.asarray(system.metric.array, dtype=float)
                want = np.linalg.inv(ref) if full else np.diag(1.0 / ref)
                scale = float(np.max(np.abs(want)))
                if not np.all(np.isfinite(M)) or np.max(np.abs(M - want)) > tol * scale * \
                        (np.linalg.cond(ref) if full else 1.0):
                    viol("metric_is_not_inverse_pooled_estimate", M, want, seq=list(seq),
                         assign=list(assign), err=float(np.max(np.abs(M - want)) / scale))
                    return
                # momenta refreshed under the new metric
                for c in range(b):
                    wantp = np.asarray(system.metric.sqrt @ zs[c], dtype=float)
                    if not np.allclose(chain_states[c].mom, wantp, rtol=1e-12, atol=1e-12):
                        viol("momentum_not_refreshed_under_new_metric", chain_states[c].mom,
                             wantp, seq=list(seq), assign=list(assign), chain=c)
                        return
                acc.outcome((F["adapter"], cfg["alphabet"], seq, b))


# --- metric adapters on real systems with live (cached) chain states -------------------------

WARM_METHODS = ("h", "dh_dmom", "grad_neg_log_dens", "h2", "gram", "inv_gram",
                "project_onto_cotangent_space", "sample_momentum")


def check_metric_real(cfg, acc):
    """Real Euclidean / constrained systems; chain states whose caches were warmed by a subset of
    the system's cached methods before `finalize`. Oracle (differential, no hand-written value):
    after finalize the refreshed momentum and every observable of the live state equal those of a
    state freshly constructed at the same position, refreshed with the same normal draws under the
    metric the adapter has set."""
    from mici import adapters as A
    from mc import zoo
    from mc.script_rng import BasisRng

    full = cfg["adapter"] == "covar"
    F = {"adapter": "OnlineCovarianceMetricAdapter" if full else "OnlineVarianceMetricAdapter",
         "class": None}

    def viol(what, obs, exp, **kw):
        acc.violation(driver="metric_real", config=cfg, fields={**F, "what": what},
                      kind="refresh", observed=obs, expected=exp, **kw)

    case = zoo.build_case(cfg["system"])
    S = case.system
    F["class"] = type(S).__name__
    d = case.d
    sts = zoo.on_manifold_states(case, cfg["system"].get("seed", 0), 4) \
        if case.constraint is not None else zoo.states(d, cfg["system"].get("seed", 0), 4)
    methods = [m for m in WARM_METHODS if hasattr(S, m)]
    z = np.array([0.7, -1.3, 0.4, 1.1])[:d]
    for b in (1, 2):
        for mask in range(1 << len(methods)):
            warm = [m for k, m in enumerate(methods) if mask >> k & 1]
            acc.count("evaluations")
            case = zoo.build_case(cfg["system"])
            S = case.system
            ad = (A.OnlineCovarianceMetricAdapter if full else A.OnlineVarianceMetricAdapter)(
                reg_iter_offset=2, reg_scale=0.5)
            tr = StubTransition(None, S)
            ast, css = [], []
            for c in range(b):
                cs = zoo.mk_state(sts[0][0], sts[0][1])
                st = ad.initialize(cs, tr)
                for (q, p) in sts[c:] + sts[:c]:
                    cs = zoo.mk_state(q, p)
                    ad.update(st, cs, None, tr)
                for m in warm:
                    if m == "sample_momentum":
                        S.sample_momentum(cs, BasisRng(z))
                    elif m == "project_onto_cotangent_space":
                        S.project_onto_cotangent_space(np.array(cs.mom), cs)
                    else:
                        getattr(S, m)(cs)
                ast.append(st)
                css.append(cs)
            try:
                if b == 1:
                    ad.finalize(ast[0], css[0], tr, BasisRng(z))
                else:
                    ad.finalize(ast, css, tr, [BasisRng(z * (c + 1)) for c in range(b)])
            except Exception as e:  # noqa: BLE001
                viol("raises:" + type(e).__name__, repr(e)[:200], "a metric", warm=warm, chains=b)
                return
            for c in range(b):
                fresh = zoo.mk_state(np.array(css[c].pos), np.zeros(d))
                fresh.mom = S.sample_momentum(fresh, BasisRng(z * (c + 1) if b > 1 else z))
                if not np.allclose(css[c].mom, fresh.mom, rtol=1e-10, atol=1e-12):
                    viol("refreshed_momentum_differs_from_fresh_state_under_new_metric",
                         np.array(css[c].mom), np.array(fresh.mom), warm=warm, chains=b, chain=c)
                    return
                for m in ("h", "h1", "h2", "dh_dmom", "dh_dpos"):
                    if not hasattr(S, m):
                        continue
                    a_, b_ = np.asarray(getattr(S, m)(css[c])), np.asarray(getattr(S, m)(fresh))
                    if not np.allclose(a_, b_, rtol=1e-10, atol=1e-12):
                        viol("stale_after_refresh:" + m, a_, b_, warm=warm, chains=b, chain=c)
                        return
                if case.constraint is not None:
                    Mi = np.linalg.inv(np.asarray(S.metric.array, dtype=float))
                    res = float(np.max(np.abs(case.constraint.jac(css[c].pos) @ Mi @ css[c].mom)))
                    if res > 1e-9 * (1 + float(np.max(np.abs(css[c].mom)))):
                        viol("refreshed_momentum_not_in_cotangent_space_of_new_metric", res,
                             "<= 1e-9", warm=warm, chains=b, chain=c)
                        return
            acc.outcome((F["adapter"], F["class"], tuple(warm), b))


def check_config(cfg, acc):
    {"dual": check_dual, "search": check_search, "metric": check_metric_adapter,
     "metric_real": check_metric_real}[cfg["mode"]](
        cfg, acc)
    acc.count("cases")
    if len(acc.samples) < 3:
        acc.sample(cfg)


def configs(tier, seed):
    cfgs = []
    max_len = 5 if tier == "quick" else 6
    settings = []
    for target in (0.8, 0.65):
        for reg_coeff in (0.05, 0.1):
            for decay in (0.75, 0.5):
                for offset in (10, 0):
                    for reg_target in (math.log(10 * 0.25), 0.0, None):
                        settings.append((target, reg_coeff, decay, offset, reg_target))
    if tier == "quick":
        settings = settings[::5]
    for (target, reg_coeff, decay, offset, reg_target) in settings:
        cfgs.append({"mode": "dual", "target": target, "reg_coeff": reg_coeff, "decay": decay,
                     "offset": offset, "reg_target": reg_target, "max_len": max_len})
    for a in range(4):
        for b in range(4):
            cfgs.append({"mode": "search", "first_letters": [a, b]})
    for adapter in ("var", "covar"):
        for alphabet in ("plain", "offset"):
            for reg in ((5, 1e-3), (0, 1e-3), (2, 0.5)):
                if adapter == "covar" and reg[0] == 0:
                    reg = (1, 1e-3)
                cfgs.append({"mode": "metric", "adapter": adapter, "alphabet": alphabet,
                             "reg": list(reg), "max_len": 4 if tier == "quick" else 5,
                             "max_chains": 3})
    for adapter in ("var", "covar"):
        for sc in REAL_SYSTEMS:
            cfgs.append({"mode": "metric_real", "adapter": adapter, "system": sc})
    return cfgs


REAL_SYSTEMS = [
    {"family": "euclidean", "d": 3, "target": "quartic", "metric": "pos_diagonal", "seed": 0},
    {"family": "euclidean", "d": 3, "target": "logcosh", "metric": "dense_pd", "seed": 1},
    {"family": "constrained", "d": 3, "target": "quartic", "metric": "dense_pd",
     "constraint": "sphere", "seed": 0},
    {"family": "constrained", "d": 3, "target": "logcosh", "metric": "pos_diagonal",
     "constraint": "affine", "seed": 1, "hausdorff": False},
    {"family": "constrained", "d": 3, "target": "gauss", "metric": "identity",
     "constraint": "ellipsoid", "seed": 0},
]


def run(tier, seed, acc):
    cfgs = configs(tier, seed)
    run_lattice(MOD, cfgs, acc, shards_per_worker=4)
    c = acc.counts
    cov = {
        "evaluations": c.get("evaluations", 0),
        "distinct_nontrivial": len(acc.outcomes),
        "rule": "dual averaging: all accept-stat sequences over {0,.25,.8,1} up to length 5/6 x "
                "settings lattice, every reducer over 1..3 chains; initial search: all 4^7 "
                "environment tables over k=-3..3 with letters {small,large,nan,fail}; metric "
                "adapters: all sequences of 2..4/5 positions from 4-vector alphabets (plain and "
                "offset 1e6), all ordered assignments to <= 3 chains, three regularisations; "
                "oracle exact rational arithmetic; distinct = distinct outcomes",
        "exhaustive": True,
        "bounds": {"configs": len(cfgs), "search_refused": c.get("search_refused", 0)},
    }
    return cov, ["initial-search environment: energy change is a function of the step size only "
                 "(table), 'small' below 2^-3 and 'large' above 2^3",
                 "metric tolerance 1e-9 relative scaled by condition number and by "
                 "(offset/spread)^2 eps"]


def replay(rec):
    return replay_lattice(MOD, rec)
