"""C14 - sampling is reproducible and independent of process scheduling.

(a) schedules: the unmodified _sample_chains_parallel runs against the simulated pool (E3); every
    schedule up to a preemption bound must terminate and return the outputs of the n_process=1 run.
(b) conformance: the same configurations on the real multiprocessing pool with per-chain delays
    (all subsets of chains delayed); the realised chain->worker assignment is observed through a
    trace of os.getpid(); outputs must equal the sequential outputs.
(c) independence: chain i run alone / with other chains before and after it / with other chains'
    initial states changed gives bit-identical rows for chain i (no cross-chain adapter).
(d) streams: the doubles delivered to each (chain, stage) are recorded; no value sequence of
    length >= 4 occurs twice in a run and per-chain first outputs are pairwise distinct.
"""

from __future__ import annotations

import itertools
import os
import time

import numpy as np

from mc.explore_choice import explore
from mc.explore_sched import run_schedule
from mc.lattice import replay_lattice, run_lattice

MOD = "mc.props.c14"

DELAYS = {}


def nld(q):
    return 0.5 * np.sum(q**2) + 0.1 * np.sum(q**4)


def grad_nld(q):
    return q + 0.4 * q**3


def trace_pid(state):
    d = DELAYS.get(int(state.cid), 0.0)
    if d:
        time.sleep(d)
    return {"pos": state.pos, "pid": os.getpid(), "cid": int(state.cid)}


def trace_plain(state):
    return {"pos": state.pos, "mom": state.mom}


def trace_pos_only(state):
    return {"pos": state.pos}


def make_rng(kind, seed):
    if kind == "RandomState":
        return np.random.RandomState(seed)
    bg = getattr(np.random, kind)(seed)
    return np.random.Generator(bg)


def build(cfg, trace=trace_plain, init_shift=0.0, chains=None):
    import warnings

    import mici
    from mici.states import ChainState

    with warnings.catch_warnings():
        warnings.simplefilter("ignore")
        rng = make_rng(cfg["bitgen"], 4242 + cfg["seed"])
        system = mici.systems.EuclideanMetricSystem(nld, grad_neg_log_dens=grad_nld)
        integ = mici.integrators.LeapfrogIntegrator(system, step_size=0.4)
        if cfg["sampler"] == "static":
            sampler = mici.samplers.StaticMetropolisHMC(system, integ, rng, n_step=2)
        else:
            sampler = mici.samplers.DynamicMultinomialHMC(system, integ, rng, max_tree_depth=2)
    chains = list(range(cfg["n_chain"])) if chains is None else chains
    # chains start at different scales (chain 1 far in the tail) so that per-chain quantities
    # such as the initial step-size search differ between chains
    scale = [1.0, 9.0, 0.3, 4.0, 2.0]
    inits = [ChainState(pos=np.array([0.3 * (c + 1) * scale[c % 5]
                                      + init_shift * (c != cfg.get("focus", -1)),
                                      -0.2 + 0.1 * c]),
                        mom=np.array([0.5, -0.1 * (c + 1)]), dir=1, cid=c) for c in chains]
    if cfg.get("init_form") == "array":
        inits = [np.array(s.pos) for s in inits]
    kw = dict(display_progress=False, trace_funcs=[trace], trace_warm_up=True)
    if cfg["stages"] == "single":
        n_warm, kw["adapters"] = 0, []
    elif cfg["stages"] == "step":
        n_warm = cfg["n_iter"]
        kw["adapters"] = [mici.adapters.DualAveragingStepSizeAdapter()]
        kw["stager"] = mici.stagers.WarmUpStager()
    elif cfg["stages"] == "noadapt2":
        n_warm, kw["adapters"] = cfg["n_iter"], []
    else:  # windowed with a variance (or dense covariance) metric adapter
        n_warm = 4
        metric_adapter = mici.adapters.OnlineCovarianceMetricAdapter() \
            if cfg["stages"] == "windowed_cov" else mici.adapters.OnlineVarianceMetricAdapter()
        kw["adapters"] = [mici.adapters.DualAveragingStepSizeAdapter(), metric_adapter]
        kw["stager"] = mici.stagers.WindowedWarmUpStager(2, 1, 1, 2.0)
    return sampler, inits, n_warm, kw


def materialise(out):
    traces = {k: [np.array(a) for a in v] for k, v in out.traces.items()}
    stats = {k: [np.array(a) for a in v] for k, v in out.statistics.items()}
    finals = [{k: (np.array(v) if isinstance(v, np.ndarray) else v)
               for k, v in s._variables.items()} for s in out.final_states]  # noqa: SLF001
    return {"traces": traces, "stats": stats, "finals": finals}


def same(a, b, skip=("pid",)):
    for k in a["traces"]:
        if k in skip:
            continue
        for c, (x, y) in enumerate(zip(a["traces"][k], b["traces"][k])):
            if x.shape != y.shape or not np.array_equal(x, y, equal_nan=True):
                return f"trace {k} chain {c}"
    for k in a["stats"]:
        for c, (x, y) in enumerate(zip(a["stats"][k], b["stats"][k])):
            if x.shape != y.shape or not np.array_equal(x, y, equal_nan=True):
                return f"statistic {k} chain {c}"
    if len(a["finals"]) != len(b["finals"]):
        return "number of final states"
    for c, (x, y) in enumerate(zip(a["finals"], b["finals"])):
        for k in x:
            if not np.array_equal(np.asarray(x[k]), np.asarray(y.get(k)), equal_nan=True):
                return f"final state {k} chain {c}"
    return None


def run_sampler(cfg, n_process, trace=trace_plain, **bkw):
    import warnings

    sampler, inits, n_warm, kw = build(cfg, trace=trace, **bkw)
    with warnings.catch_warnings():
        warnings.simplefilter("ignore")
        out = sampler.sample_chains(n_warm, cfg["n_iter"], inits, n_process=n_process, **kw)
    return materialise(out)


# ---- (a) schedules ---------------------------------------------------------------------------


def check_schedules(cfg, acc):
    F = {"stages": cfg["stages"], "sampler": cfg["sampler"]}

    def viol(what, obs, exp, **kw):
        acc.violation(driver="schedules", config=cfg, fields={**F, "what": what},
                      kind="schedule_dependence", observed=obs, expected=exp, **kw)

    ref = run_sampler(cfg, 1)
    assignments = set()
    first = {"viol": False}

    def run(ctx):
        return run_schedule(ctx, lambda: run_sampler(cfg, cfg["n_process"]))

    def on_leaf(ctx, r):
        status, val, sched = r
        acc.count("schedules")
        acc.notes["max_scheduling_points"] = max(acc.notes.get("max_scheduling_points", 0),
                                                 sched.n_points)
        if status == "hang":
            if not first["viol"]:
                viol("hang", val, "terminates", schedule=ctx.choices)
                first["viol"] = True
            return
        if status == "exc":
            if not first["viol"]:
                viol("raises:" + type(val).__name__, repr(val)[:200], "returns",
                     schedule=ctx.choices)
                first["viol"] = True
            return
        # assignment of chains to workers per stage
        assignments.add(tuple(sched.assignments))
        diff = same(ref, val)
        if diff and not first["viol"]:
            viol("differs_from_sequential", diff, "identical outputs", schedule=ctx.choices,
                 assignment=sched.assignments)
            first["viol"] = True

    from mc.explore_choice import Divergence

    for attempt in range(3):
        try:
            res = explore(run, on_leaf, bound=cfg["bound"], max_leaves=cfg.get("max_leaves"))
            break
        except Divergence as e:
            # harness nondeterminism (rare, under heavy load): repeat this configuration from
            # scratch; three divergences in a row are a hard error
            acc.count("divergence_retries")
            acc.notes["last_divergence"] = str(e)[:400]
            assignments.clear()
            first["viol"] = False
            if attempt == 2:
                raise
    acc.count("distinct_assignments", len(assignments))
    acc.notes["capped"] = bool(acc.notes.get("capped")) or res["capped"]
    if not first["viol"]:
        acc.outcome(("sched", cfg["stages"], cfg["sampler"], cfg["n_chain"], cfg["n_process"],
                     cfg["bitgen"], res["leaves"], len(assignments)))
    if len(acc.samples) < 2:
        acc.sample({"config": cfg, "schedules": res["leaves"],
                    "distinct_assignments": len(assignments)})


# ---- (b) real pool ---------------------------------------------------------------------------


def check_real_pool(cfg, acc):
    from mc.runner import WatchdogTimeout, run_with_alarm

    F = {"stages": cfg["stages"], "sampler": cfg["sampler"]}

    def viol(what, obs, exp, **kw):
        acc.violation(driver="real_pool", config=cfg, fields={**F, "what": what},
                      kind="schedule_dependence", observed=obs, expected=exp, **kw)

    ref = run_sampler(cfg, 1, trace=trace_pid)
    n = cfg["n_chain"]
    seen = set()
    for subset in itertools.chain.from_iterable(itertools.combinations(range(n), r)
                                                for r in range(n + 1)):
        DELAYS.clear()
        DELAYS.update({c: 0.05 for c in subset})
        acc.count("real_pool_runs")
        try:
            out = run_with_alarm(120, run_sampler, cfg, cfg["n_process"], trace=trace_pid)
        except WatchdogTimeout:
            viol("hang", f"delays on {subset}", "terminates")
            continue
        except Exception as e:  # noqa: BLE001
            viol("raises:" + type(e).__name__, repr(e)[:200], "returns", delayed=list(subset))
            continue
        finally:
            DELAYS.clear()
        pids = [tuple(sorted(set(a.tolist()))) for a in out["traces"]["pid"]]
        seen.add(tuple(pids))
        diff = same(ref, out)
        if diff:
            viol("differs_from_sequential", diff, "identical outputs", delayed=list(subset),
                 pids=pids)
            return
    acc.count("real_pool_assignments", len(seen))
    acc.outcome(("real", cfg["stages"], cfg["n_chain"], cfg["n_process"], len(seen)))


# ---- (c) independence ------------------------------------------------------------------------


def check_independence(cfg, acc):
    F = {"stages": cfg["stages"], "sampler": cfg["sampler"]}

    def viol(what, obs, exp, **kw):
        acc.violation(driver="independence", config=cfg, fields={**F, "what": what},
                      kind="chain_dependence", observed=obs, expected=exp, **kw)

    n = cfg["n_chain"]
    full = run_sampler(cfg, 1)
    # with a step-size adapter the chains interact when the first adaptive stage is finalized:
    # only the rows of that first stage are compared
    rows = slice(0, cfg["n_iter"]) if cfg["stages"] == "step" else slice(None)
    for focus in range(n):
        c2 = dict(cfg, focus=focus)
        # other chains' initial states changed
        acc.count("evaluations")
        shifted = run_sampler(c2, 1, init_shift=0.37)
        for k in full["traces"]:
            if not np.array_equal(full["traces"][k][focus][rows],
                                  shifted["traces"][k][focus][rows]):
                viol("depends_on_other_chains_initial_states", k, "identical rows",
                     focus=focus)
                return
        for k in full["stats"]:
            if not np.array_equal(full["stats"][k][focus][rows], shifted["stats"][k][focus][rows],
                                  equal_nan=True):
                viol("depends_on_other_chains_initial_states", k, "identical rows",
                     focus=focus)
                return
    acc.outcome(("indep", cfg["stages"], cfg["sampler"], n, cfg["bitgen"]))


def check_chain_count(cfg, acc):
    """Chain i's rows do not depend on how many chains follow it (prefix property)."""
    F = {"stages": cfg["stages"], "sampler": cfg["sampler"],
         "init_form": cfg.get("init_form", "state")}
    n = cfg["n_chain"]
    full = run_sampler(cfg, 1)
    for m in range(1, n):
        acc.count("evaluations")
        part = run_sampler(dict(cfg, n_chain=m), 1)
        for k in full["traces"]:
            for c in range(m):
                if not np.array_equal(full["traces"][k][c], part["traces"][k][c]):
                    acc.violation(driver="independence", config=cfg,
                                  fields={**F, "what": "depends_on_number_of_chains"},
                                  kind="chain_dependence", observed=k, expected="identical rows",
                                  chains_run=m, chain=c)
                    return
    acc.outcome(("count", cfg["stages"], cfg["sampler"], n, cfg["bitgen"]))


# ---- (d) streams -----------------------------------------------------------------------------


class RecordingGen:
    """Wraps a Generator; records every double it hands out."""

    def __init__(self, gen, log):
        self._gen, self._log = gen, log

    def __getattr__(self, name):
        if "_gen" not in self.__dict__:
            raise AttributeError(name)
        return getattr(self._gen, name)

    def _rec(self, v):
        self._log.extend(np.asarray(v, dtype=float).ravel().tolist())
        return v

    def uniform(self, *a, **k):
        return self._rec(self._gen.uniform(*a, **k))

    def standard_normal(self, *a, **k):
        return self._rec(self._gen.standard_normal(*a, **k))

    def normal(self, *a, **k):
        return self._rec(self._gen.normal(*a, **k))

    def integers(self, *a, **k):
        return self._rec(self._gen.integers(*a, **k))


def check_streams(cfg, acc):
    import mici.samplers as ms

    F = {"stages": cfg["stages"], "sampler": cfg["sampler"]}
    logs = {}
    orig = ms._sample_chain  # noqa: SLF001
    stage_counter = {}

    def wrapped(*a, **k):
        c = k.get("chain_index", 0)
        s = stage_counter.get(c, 0)
        stage_counter[c] = s + 1
        lg = logs.setdefault((c, s), [])
        k["rng"] = RecordingGen(k["rng"], lg)
        return orig(*a, **k)

    ms._sample_chain = wrapped  # noqa: SLF001
    # ownership: generator i belongs to chain i - also OUTSIDE the chain loop, where the metric
    # adapters draw fresh momenta for the chain states (sequential runs; the generators are the
    # parent's own objects there)
    foreign = []
    orig_rngs = ms._get_per_chain_rngs  # noqa: SLF001

    class OwnedGen(RecordingGen):
        pass

    def owned_rngs(base, n):
        out = []
        for i, g in enumerate(orig_rngs(base, n)):
            o = OwnedGen(g, [])
            o.__dict__["owner"] = i
            out.append(o)
        return out

    if cfg["n_process"] == 1:
        ms._get_per_chain_rngs = owned_rngs  # noqa: SLF001
        import mici.systems as msys
        orig_sm = msys.EuclideanMetricSystem.sample_momentum

        def sm(self_, state, rng):
            owner = getattr(rng, "owner", None)
            if owner is None and hasattr(rng, "_gen"):
                owner = getattr(rng._gen, "owner", None)  # noqa: SLF001
            cid = getattr(state, "cid", None)
            if owner is not None and cid is not None and int(cid) != int(owner):
                foreign.append((int(cid), int(owner)))
            return orig_sm(self_, state, rng)

        msys.EuclideanMetricSystem.sample_momentum = sm
    try:
        acc.count("evaluations")
        if cfg["n_process"] == 1:
            try:
                run_sampler(cfg, 1)
            finally:
                ms._get_per_chain_rngs = orig_rngs  # noqa: SLF001
                msys.EuclideanMetricSystem.sample_momentum = orig_sm
            if foreign:
                acc.violation(driver="streams", config=cfg,
                              fields={**F, "what": "momentum_of_a_chain_drawn_from_another_chains_generator"},
                              kind="stream_reuse", observed=foreign[:6],
                              expected="chain i is driven by generator i only")
                return
        else:
            from mc.explore_choice import Ctx
            status, val, sched = run_schedule(Ctx([]), lambda: run_sampler(cfg, cfg["n_process"]))
            if status != "ok":
                acc.violation(driver="streams", config=cfg, fields={**F, "what": "run_failed"},
                              kind="stream_reuse", observed=str(val)[:200], expected="returns")
                return
    finally:
        ms._sample_chain = orig  # noqa: SLF001
    # no window of 4 consecutive doubles occurs twice anywhere in the run
    seen = {}
    for key, lg in sorted(logs.items()):
        for i in range(len(lg) - 3):
            w = tuple(lg[i:i + 4])
            if w in seen and seen[w] != (key, i):
                acc.violation(driver="streams", config=cfg,
                              fields={**F, "what": "random_stream_replayed"},
                              kind="stream_reuse",
                              observed={"first": seen[w], "again": (key, i)},
                              expected="every stream segment used once",
                              n_process=cfg["n_process"])
                return
            seen[w] = (key, i)
    firsts = [tuple(lg[:4]) for key, lg in sorted(logs.items()) if key[1] == 0 and len(lg) >= 4]
    if len(set(firsts)) != len(firsts):
        acc.violation(driver="streams", config=cfg,
                      fields={**F, "what": "chains_share_a_stream"}, kind="stream_reuse",
                      observed=firsts, expected="pairwise distinct")
        return
    acc.outcome(("streams", cfg["stages"], cfg["n_process"], cfg["bitgen"], len(logs)))


def check_config(cfg, acc):
    {"schedules": check_schedules, "real_pool": check_real_pool,
     "independence": check_independence, "chain_count": check_chain_count,
     "streams": check_streams}[cfg["mode"]](cfg, acc)
    acc.count("cases")


BITGENS = ("PCG64", "PCG64DXSM", "MT19937", "Philox", "SFC64", "RandomState")


def configs(tier, seed):
    cfgs = []
    quick = tier == "quick"
    bound = 1 if quick else 2
    for stages in ("single", "step", "noadapt2", "windowed"):
        for n_process, n_chain in ((2, 2), (2, 3), (3, 3)) + (() if quick else ((3, 4), (2, 4))):
            for sampler in ("static",) if quick else ("static", "multinomial"):
                bgs = ("PCG64",) if (n_process, n_chain) != (2, 3) else BITGENS
                for bg in bgs:
                    # preemption bound: deepest for the single-stage PCG64 runs, one less for
                    # multi-stage runs / other bit generators (values cannot depend on the
                    # generator type beyond the stream, which (d) checks separately)
                    b = bound
                    if stages != "single" or bg != "PCG64" or sampler != "static":
                        b = bound - 1
                    if not quick and n_chain == 4:
                        b = min(b, 1)
                    cfgs.append({"mode": "schedules", "stages": stages, "n_process": n_process,
                                 "n_chain": n_chain, "n_iter": 1 if stages == "windowed" else 2,
                                 "sampler": sampler, "bitgen": bg, "bound": b, "seed": seed,
                                 "max_leaves": 2500 if not quick else 600})
    for stages in ("single", "step"):
        for n_process, n_chain in ((2, 3),) + (() if quick else ((3, 4),)):
            cfgs.append({"mode": "real_pool", "stages": stages, "n_process": n_process,
                         "n_chain": n_chain, "n_iter": 2, "sampler": "static", "bitgen": "PCG64",
                         "seed": seed})
    for sampler in ("static", "multinomial"):
        cfgs.append({"mode": "independence", "stages": "step", "n_chain": 3, "n_iter": 3,
                     "sampler": sampler, "bitgen": "PCG64", "seed": seed})
    for stages in ("single", "noadapt2"):
        for bg in BITGENS:
            for sampler in ("static", "multinomial"):
                cfgs.append({"mode": "independence", "stages": stages, "n_chain": 3,
                             "n_iter": 2, "sampler": sampler, "bitgen": bg, "seed": seed})
                cfgs.append({"mode": "chain_count", "stages": stages, "n_chain": 3,
                             "n_iter": 2, "sampler": sampler, "bitgen": bg, "seed": seed})
                cfgs.append({"mode": "chain_count", "stages": stages, "n_chain": 3,
                             "n_iter": 2, "sampler": sampler, "bitgen": bg, "seed": seed,
                             "init_form": "array"})
    for stages in ("single", "step", "noadapt2", "windowed", "windowed_cov"):
        for n_process in (1, 2):
            for bg in ("PCG64", "MT19937") if quick else BITGENS:
                cfgs.append({"mode": "streams", "stages": stages, "n_process": n_process,
                             "n_chain": 3, "n_iter": 2, "sampler": "static", "bitgen": bg,
                             "seed": seed})
    return cfgs


def run(tier, seed, acc):
    cfgs = configs(tier, seed)
    cfgs.sort(key=lambda c: 0 if c["mode"] in ("schedules", "real_pool") else 1)
    run_lattice(MOD, cfgs, acc, shards_per_worker=8)
    c = acc.counts
    cov = {
        "states": c.get("distinct_assignments", 0) + len(acc.outcomes),
        "transitions": c.get("schedules", 0),
        "traces_validated_against_impl": c.get("real_pool_runs", 0),
        "evaluations": c.get("schedules", 0) + c.get("real_pool_runs", 0)
        + c.get("evaluations", 0),
        "distinct_nontrivial": len(acc.outcomes),
        "rule": "(a) every schedule of the unmodified _sample_chains_parallel against the "
                "simulated pool up to the preemption bound (scheduling points: every manager "
                "queue operation, worker start/exit, AsyncResult.get), for n_process {2,3} x "
                "n_chain {2,3,4} x single-/multi-stage x bit generators; states = distinct "
                "chain->worker assignment sequences reached + passing configurations, "
                "transitions = complete schedules executed; (b) real pool with every subset of "
                "chains delayed; (c) independence of a chain from other chains' initial states "
                "and from the number of chains; (d) recorded random streams",
        "exhaustive": not bool(acc.notes.get("capped")),
        "bounds": {"preemption_bound_quick_single_stage": 1 if tier == "quick" else 2,
                   "configs": len(cfgs), "real_pool_runs": c.get("real_pool_runs", 0),
                   "max_scheduling_points": acc.notes.get("max_scheduling_points")},
        "caps_hit": ["max_leaves"] if acc.notes.get("capped") else [],
    }
    return cov, ["the simulated pool pickles task arguments, queue items and results, so process "
                 "isolation is preserved; its faithfulness is checked by (b): real-pool outputs "
                 "must equal the same reference",
                 "iterative preemption bounding: continuing the running participant is the "
                 "default, switching away from a runnable participant costs one preemption"]


def replay(rec):
    return replay_lattice(MOD, rec)
