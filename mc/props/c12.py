"""C12 - numerical failures inside a trajectory are contained as rejections.

E4: a fault-free run of each driver chain counts the calls made to every user callback inside the
integration transition's sample(); then for EVERY call index and EVERY fault kind the run is
repeated with the fault at that call.  Solver clause: each of the five solvers is called directly
with the same fault menu at every call index of its residual functions.
"""

from __future__ import annotations

import numpy as np

from mc import cacheworld as cw
from mc.faults import EXC_KINDS, VALUE_KINDS, FaultPlan
from mc.script_rng import StreamRng

MOD = "mc.props.c12"

DRIVERS = [
    # (system spec, integrator recipe)
    ("euclidean", ["leapfrog"]),
    ("diagonal_riemannian", ["implicit_leapfrog", "direct", False]),
    ("scalar_riemannian", ["implicit_leapfrog", "steffensen", False]),
    ("dense_riemannian", ["implicit_midpoint", "direct", False]),
    ("softabs_riemannian", ["implicit_leapfrog", "direct", False]),
    ("gaussian", ["implicit_midpoint", "steffensen", False]),
    ("constrained_hausdorff", ["constrained_leapfrog", "newton", 1, False]),
    ("constrained_gram", ["constrained_leapfrog", "quasi_newton", 2, False]),
    ("gaussian_constrained", ["constrained_leapfrog", "newton_line_search", 1, False]),
]
TRANSITIONS = ("static", "random", "multinomial", "slice")


def make_transition(kind, system, integ, depth):
    from mici import transitions as T

    if kind == "static":
        return T.MetropolisStaticIntegrationTransition(system, integ, 2)
    if kind == "random":
        return T.MetropolisRandomIntegrationTransition(system, integ, (1, 4))
    if kind == "multinomial":
        return T.MultinomialDynamicIntegrationTransition(system, integ, max_tree_depth=depth)
    return T.SliceDynamicIntegrationTransition(system, integ, max_tree_depth=depth)


def start_state(spec, d):
    from mc import zoo
    from mici.states import ChainState

    q = cw.VALS[d]["pos"][0].copy()
    cfg = dict(cw.SYSTEM_SPECS)[spec]
    if "constraint" in cfg:
        con = zoo.Constraint(cfg["constraint"], d, 0)
        q = con.project(q)
    return ChainState(pos=q, mom=None, dir=1)


def run_chain(cfg, plan, solver_fault=None):
    """Returns a report dict; never raises for library exceptions (they are reported)."""
    from mici.errors import ConvergenceError, IntegratorError
    from mici.transitions import IndependentMomentumTransition
    from mc import izoo

    d = 2
    spec = cfg["spec"]
    system, _ = cw.build_system(dict(cw.SYSTEM_SPECS)[spec], cfg["conv"], d, 0, counter=plan)
    integ = izoo.build_integrator(cfg["integrator"], system, cfg["eps"])
    # log of completed steps and of exceptions raised by integrator.step
    completed = []
    step_errors = []
    orig_step = integ.step

    def step(state):
        try:
            new = orig_step(state)
        except IntegratorError as e:
            step_errors.append(type(e).__name__)
            raise
        completed.append((np.array(new.pos), np.array(new.mom)))
        return new

    integ.step = step
    solver_calls = {"n": 0}
    if solver_fault is not None or cfg.get("count_solver_calls"):
        attr = "fixed_point_solver" if hasattr(integ, "fixed_point_solver") else (
            "projection_solver" if hasattr(integ, "projection_solver") else None)
        if attr:
            real = getattr(integ, attr)

            def solver(*a, **k):
                if plan.armed:
                    i = solver_calls["n"]
                    solver_calls["n"] += 1
                    if solver_fault is not None and i == solver_fault:
                        plan.fired = ("solver", i, "forced_non_convergence", True)
                        raise ConvergenceError("forced non-convergence")
                return real(*a, **k)

            setattr(integ, attr, solver)
    tr = make_transition(cfg["transition"], system, integ, cfg["depth"])
    mtr = IndependentMomentumTransition(system)
    rng = StreamRng()
    state = start_state(spec, d)
    report = {"iterations": []}
    for it in range(cfg["iterations"]):
        try:
            state, _ = mtr.sample(state, rng)
        except Exception as e:  # noqa: BLE001
            report["momentum_failed"] = repr(e)[:200]
            break
        pre = (np.array(state.pos), np.array(state.mom))
        completed.clear()
        step_errors.clear()
        plan.armed = it < cfg.get("armed_iterations", cfg["iterations"])
        try:
            new, stats = tr.sample(state, rng)
            err = None
        except Exception as e:  # noqa: BLE001
            import traceback

            tb = traceback.extract_tb(e.__traceback__)
            mici_frames = [f for f in tb if "/mici/" in f.filename]
            where = f"{mici_frames[-1].name}" if mici_frames else "?"
            names = [f.name for f in mici_frames]
            site = next((n for n in reversed(names) if n not in ("__init__", "wrapper")), "?")
            err = (type(e).__name__, repr(e)[:160], where, ">".join(names), site)
            new, stats = None, None
        finally:
            plan.armed = False
        rec = {"pre": pre, "err": err, "step_errors": list(step_errors),
               "n_completed": len(completed)}
        if err is None:
            rec["pos"], rec["mom"] = np.array(new.pos), np.array(new.mom)
            rec["stats"] = {k: (bool(v) if isinstance(v, (bool, np.bool_)) else float(v))
                            for k, v in stats.items()}
            cands = [pre] + list(completed)
            rec["is_candidate"] = any(np.array_equal(rec["pos"], c[0]) for c in cands)
            state = new
        report["iterations"].append(rec)
        if err is not None:
            break
    report["counts"] = dict(plan.counts)
    report["solver_calls"] = solver_calls["n"]
    return report


def judge(cfg, report, plan, acc, inject):
    """Apply the oracle to a (possibly faulted) run."""
    F = {"spec": cfg["spec"], "integrator": cfg["integrator"][0], "transition": cfg["transition"]}

    def viol(kind, what, obs, exp, **kw):
        acc.violation(driver="chain", config=dict(cfg, inject=inject),
                      fields={**F, "what": what, "fault_kind": inject[2] if inject else None,
                              "callback": inject[0].split(":")[0] if inject else None,
                              "site": kw.get("site")},
                      kind=kind, observed=obs, expected=exp, **kw)

    if "momentum_failed" in report:
        return  # faults are only armed inside the integration transition
    for it, rec in enumerate(report["iterations"]):
        if rec["err"] is not None:
            ename, msg, where, path, site = rec["err"]
            viol("exception_escaped", f"escaped:{ename}@{where}", msg,
                 "Transition.sample returns", iteration=it, mici_frames=path, site=site,
                 in_solver=plan.fired[3] if plan.fired else None)
            return
        if not (np.all(np.isfinite(rec["pos"])) and np.all(np.isfinite(rec["mom"]))):
            viol("non_finite_state", "returned_state_not_finite", [rec["pos"], rec["mom"]],
                 "finite state", iteration=it)
            return
        if not rec["is_candidate"]:
            viol("not_a_candidate", "returned_state_not_start_or_completed_step", rec["pos"],
                 "pre-transition state or a state produced by a completed step", iteration=it)
            return
        st = rec["stats"]
        flags = {"ConvergenceError": "convergence_error",
                 "NonReversibleStepError": "non_reversible_step",
                 "HamiltonianDivergenceError": "diverging"}
        for ename in rec["step_errors"]:
            fl = flags.get(ename)
            if fl and fl in st and not st[fl]:
                viol("flag_not_set", "error_flag_not_set:" + fl, st, f"{fl} == True",
                     iteration=it)
                return
            if fl and st.get("accept_stat") != 0.0:
                viol("accept_stat", "accept_stat_nonzero_after_error", st.get("accept_stat"),
                     0.0, iteration=it)
                return
        # Metropolis: on integrator error the state must be unchanged
        if cfg["transition"] in ("static", "random") and rec["step_errors"]:
            if not np.array_equal(rec["pos"], rec["pre"][0]):
                viol("moved_after_error", "metropolis_moved_after_integrator_error", rec["pos"],
                     rec["pre"][0], iteration=it)
                return
    if len(report["iterations"]) < cfg["iterations"]:
        viol("chain_stopped", "chain_did_not_continue", len(report["iterations"]),
             cfg["iterations"])


def check_chain(cfg, acc):
    base_plan = FaultPlan()
    cfgc = dict(cfg, count_solver_calls=True)
    base = run_chain(cfgc, base_plan)
    judge(cfg, base, base_plan, acc, None)
    acc.count("fault_free_runs")
    counts = base["counts"]
    n_inj = 0
    for name, n in sorted(counts.items()):
        for k in range(n):
            insolver = base_plan.in_solver_at.get((name, k), False)
            for kind in VALUE_KINDS + EXC_KINDS:
                if kind == "nan0" and cfg.get("armed_iterations", 3) == 1:
                    continue  # quick tier: partial faults as inf0 only (nan0 in thorough)
                if kind in EXC_KINDS and not insolver:
                    acc.count("not_applicable_exception_outside_solver")
                    continue
                plan = FaultPlan(name, k, kind)
                rep = run_chain(cfg, plan)
                acc.count("evaluations")
                n_inj += 1
                if plan.fired is None:
                    acc.count("fault_not_reached")
                    continue
                judge(cfg, rep, plan, acc, (name, k, kind))
                acc.outcome((cfg["spec"], cfg["transition"], name, kind,
                             tuple(tuple(r["step_errors"]) for r in rep["iterations"])))
    for k in range(base["solver_calls"]):
        plan = FaultPlan()
        rep = run_chain(cfg, plan, solver_fault=k)
        acc.count("evaluations")
        judge(cfg, rep, plan, acc, ("solver", k, "forced_non_convergence"))
        acc.outcome((cfg["spec"], cfg["transition"], "solver", k))
    acc.notes[f"calls[{cfg['spec']}/{cfg['transition']}]"] = sum(counts.values())
    if len(acc.samples) < 3:
        acc.sample({"config": cfg, "callback_calls": counts, "solver_calls": base["solver_calls"]})


# ---------------------------------------------------------------------------------------------
# solvers called directly
# ---------------------------------------------------------------------------------------------


def check_solvers(cfg, acc):
    from mici import solvers as S
    from mici.errors import ConvergenceError
    from mc import zoo

    name = cfg["solver"]
    F = {"spec": "solver", "integrator": name, "transition": None}

    def viol(kind, what, obs, exp, **kw):
        acc.violation(driver="solver", config=cfg,
                      fields={**F, "what": what, "fault_kind": kw.get("fault"),
                              "callback": kw.get("callback")},
                      kind=kind, observed=obs, expected=exp, **kw)

    if name in ("direct", "steffensen"):
        fn = S.solve_fixed_point_direct if name == "direct" else S.solve_fixed_point_steffensen
        problems = [
            ("contraction", lambda x: 0.5 * np.cos(x) + np.array([0.1, -0.2]), np.array([0.3, 0.4])),
            ("linear", lambda x: np.array([[0.2, 0.1], [-0.3, 0.4]]) @ x + 1.0, np.zeros(2)),
            ("divergent", lambda x: 3.0 * x + 1.0, np.array([1.0, 2.0])),
            ("slow", lambda x: 0.999 * x + 0.001, np.array([5.0, -5.0])),
            # the function itself overflows in one component only (no injected fault needed)
            ("partial_overflow", lambda x: np.array([0.5 * x[0] + 1.0, x[1] ** 3]),
             np.array([0.0, 1e50])),
            ("partial_nan", lambda x: np.array([0.5 * x[0] + 1.0, np.sqrt(x[1] - 2.0)]),
             np.array([0.0, 1.0])),
        ]
        for pname, f, x0 in problems:
            plan0 = FaultPlan()
            plan0.armed = True
            acc.count("evaluations")
            try:
                with np.errstate(all="ignore"):
                    xb = fn(plan0.wrap("func", f), x0.copy())
                with np.errstate(all="ignore"):
                    resb = float(np.max(np.abs(f(xb) - xb))) if np.all(np.isfinite(xb)) \
                        else np.inf
                if not resb < 1e-7:
                    viol("unconverged_return", "returned_unconverged", resb, "< 1e-7",
                         fault=None, callback="func", problem=pname, k=None)
                else:
                    acc.outcome(("solver", name, pname, "fault-free"))
            except ConvergenceError:
                acc.count("solver_raised_convergence_error")
            except Exception as e:  # noqa: BLE001
                viol("exception_escaped", "escaped:" + type(e).__name__, repr(e)[:200],
                     "ConvergenceError", fault=None, callback="func", problem=pname, k=None)
            n = plan0.counts.get("func", 0)
            for k in range(n):
                for kind in VALUE_KINDS + EXC_KINDS:
                    plan = FaultPlan("func", k, kind)
                    plan.armed = True
                    acc.count("evaluations")
                    try:
                        x = fn(plan.wrap("func", f), x0.copy())
                    except ConvergenceError:
                        acc.count("solver_raised_convergence_error")
                        continue
                    except Exception as e:  # noqa: BLE001
                        viol("exception_escaped", "escaped:" + type(e).__name__, repr(e)[:200],
                             "ConvergenceError", fault=kind, callback="func", problem=pname, k=k)
                        continue
                    res = float(np.max(np.abs(f(x) - x))) if np.all(np.isfinite(x)) else np.inf
                    if not res < 1e-7:
                        viol("unconverged_return", "returned_unconverged", res, "< 1e-7",
                             fault=kind, callback="func", problem=pname, k=k)
                    else:
                        acc.outcome(("solver", name, pname, k, kind))
        return
    # projection solvers on zoo constrained systems
    from mc.props.c04 import solver_fn

    fnp = solver_fn(name)
    for spec in ("constrained_hausdorff", "gaussian_constrained"):
        d = 2
        for dt in (0.3, -0.5, 1.5):
            def attempt(plan):
                system, _ = cw.build_system(dict(cw.SYSTEM_SPECS)[spec], "plain", d, 0,
                                            counter=plan)
                con = zoo.Constraint("sphere", d, 0)
                q = con.project(cw.VALS[d]["pos"][0])
                Mi = np.eye(d)
                p = con.project_mom(q, cw.VALS[d]["mom"][0], Mi)
                from mici.states import ChainState

                prev = ChainState(pos=q.copy(), mom=p.copy(), dir=1)
                system.jacob_constr(prev)
                st = prev.copy()
                system.h2_flow(st, dt)
                plan.armed = True
                try:
                    out = fnp(st, prev, dt, system)
                finally:
                    plan.armed = False
                return con, st

            plan0 = FaultPlan()
            try:
                attempt(plan0)
            except ConvergenceError:
                pass
            for cname, n in sorted(plan0.counts.items()):
                for k in range(n):
                    for kind in VALUE_KINDS + EXC_KINDS:
                        plan = FaultPlan(cname, k, kind)
                        acc.count("evaluations")
                        try:
                            con, st = attempt(plan)
                        except ConvergenceError:
                            acc.count("solver_raised_convergence_error")
                            continue
                        except Exception as e:  # noqa: BLE001
                            viol("exception_escaped", "escaped:" + type(e).__name__,
                                 repr(e)[:200], "ConvergenceError", fault=kind,
                                 callback=cname.split(":")[0], spec=spec, k=k, dt=dt)
                            continue
                        res = float(np.max(np.abs(con.c(np.array(st.pos))))) \
                            if np.all(np.isfinite(st.pos)) else np.inf
                        if not res < 1e-8 or not np.all(np.isfinite(st.mom)):
                            viol("unconverged_return", "returned_unconverged", res, "< 1e-8",
                                 fault=kind, callback=cname.split(":")[0], spec=spec, k=k, dt=dt)
                        else:
                            acc.outcome(("solver", name, spec, dt, cname, k, kind))


def check_config(cfg, acc):
    if cfg["mode"] == "chain":
        check_chain(cfg, acc)
    else:
        check_solvers(cfg, acc)
    acc.count("cases")


def configs(tier, seed):
    cfgs = []
    iters = 2 if tier == "quick" else 3
    armed = 1 if tier == "quick" else 2
    depth = 2
    for spec, rec in DRIVERS:
        for tr in TRANSITIONS:
            for conv in (("plain",) if tier == "quick" else ("plain", "with_value")):
                cfgs.append({"mode": "chain", "spec": spec, "integrator": rec, "transition": tr,
                             "conv": conv, "eps": 0.3, "iterations": iters, "armed_iterations": armed,
                             "depth": depth,
                             "seed": seed})
    for s in ("direct", "steffensen", "newton", "quasi_newton", "newton_line_search"):
        cfgs.append({"mode": "solver", "solver": s})
    return cfgs


def run(tier, seed, acc):
    from mc.lattice import run_lattice

    cfgs = configs(tier, seed)
    run_lattice(MOD, cfgs, acc, shards_per_worker=16)
    c = acc.counts
    cov = {
        "evaluations": c.get("evaluations", 0),
        "distinct_nontrivial": len(acc.outcomes),
        "rule": "driver chains (transition type x integrator/system/solver combination); every "
                "call index of every user callback (incl. closures returned by derivative "
                "functions) inside the integration transition x fault kind {nan, +inf, -inf, "
                "ValueError, LinAlgError (only inside a solver frame), forced non-convergence at "
                "every solver call index}; plus the five solvers called directly; non-trivial = "
                "distinct (driver, callback, fault kind, resulting integrator-error pattern)",
        "exhaustive": True,
        "bounds": {"configs": len(cfgs), "iterations": 2 if tier == "quick" else 3,
                   "iterations_with_faults": 1 if tier == "quick" else 2,
                   "not_applicable_exception_outside_solver":
                       c.get("not_applicable_exception_outside_solver", 0),
                   "fault_not_reached": c.get("fault_not_reached", 0)},
    }
    return cov, ["random draws come from a fixed scripted stream so that faulted and fault-free "
                 "runs are comparable",
                 "exceptions are injected only while a solve_* frame is on the stack (the "
                 "property restricts them to iterative solves)"]


def replay(rec):
    from mc.runner import Acc

    acc = Acc()
    cfg = dict(rec["config"])
    inject = cfg.pop("inject", None)
    if rec["driver"] == "solver":
        check_solvers(cfg, acc)
    elif inject is None:
        plan = FaultPlan()
        judge(cfg, run_chain(cfg, plan), plan, acc, None)
    elif inject[0] == "solver":
        plan = FaultPlan()
        judge(cfg, run_chain(cfg, plan, solver_fault=inject[1]), plan, acc, tuple(inject))
    else:
        plan = FaultPlan(*inject)
        judge(cfg, run_chain(cfg, plan), plan, acc, tuple(inject))
    want = rec["fields"]
    for recs in acc.viol.values():
        if recs[0]["fields"] == want:
            return True, {"inject": inject, "observed": recs[0]["observed"],
                          "expected": recs[0]["expected"], "fields": want}
    return False, {"violations_seen": [r[0]["fields"] for r in acc.viol.values()]}
