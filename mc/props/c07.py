"""C07 - component flow maps are the exact flows of their Hamiltonian components.

Complete product of tractable-flow system class x metric type x dimension x time interval
(incl. |t| longer than a period); h1_flow against the reference gradient, h2_flow against the
closed-form drift or the matrix exponential of the linear Hamilton equations of h2; energy
conservation, additivity in time, inverse, and dh2_flow_dmom blocks as images of basis momenta.
"""

from __future__ import annotations

import numpy as np
import scipy.linalg as sla

from mc import zoo
from mc.lattice import replay_lattice, run_lattice
from mc.oracles import fd_grad, maxerr

MOD = "mc.props.c07"
TIMES = (0.1, -0.1, 1.0, -1.0, 7.0, -7.0)


def configs(tier, seed):
    fams = ("euclidean", "gaussian", "constrained", "gaussian_constrained")
    if tier == "quick":
        cfgs = zoo.system_configs(seed, tier, families=fams, all_convs=False,
                                  derived_metrics=True)
        # h2 flows do not depend on the target: one target is enough in quick
        return [c for c in cfgs if c["target"] == "quartic"]
    cfgs = []
    for sd in (seed, seed + 3, seed + 5):  # three parameter variants of every lattice
        cfgs += zoo.system_configs(sd, tier, families=fams, all_convs=True, derived_metrics=True)
    return cfgs


def ref_h2_flow(case, gaussian, q, p, t):
    Mi = np.linalg.inv(case.metric_ref(q))
    d = case.d
    if not gaussian:
        return q + t * Mi @ p, p.copy(), np.block([[np.eye(d), t * Mi], [np.zeros((d, d)), np.eye(d)]])
    A = np.block([[np.zeros((d, d)), Mi], [-np.eye(d), np.zeros((d, d))]])
    E = sla.expm(t * A)
    z = E @ np.concatenate([q, p])
    return z[:d], z[d:], E


def check_config(cfg, acc):
    case = zoo.build_case(cfg)
    S = case.system
    d = case.d
    gaussian = cfg["family"] in ("gaussian", "gaussian_constrained")
    cls = type(S).__name__
    F = {"class": cls, "metric": cfg["metric"]}
    sts = zoo.states(d, cfg["seed"], 2)

    def viol(kind, what, obs, exp, **kw):
        acc.violation(driver="lattice", config=cfg, fields={**F, "what": what}, kind=kind,
                      observed=obs, expected=exp, **kw)

    _flows(S, case, cfg, acc, viol, gaussian, cls, sts, "as_constructed")
    # the metric is a public attribute which the metric adapters re-assign on a live system:
    # after that the flows must be those of the NEW metric (no value derived from the old one
    # may survive on the system object)
    names = [m for m in zoo.metric_names(d, include_implicit=False) if m != cfg["metric"]]
    alt = names[(len(cfg["metric"]) + d) % len(names)]
    case_b = zoo.build_case(dict(cfg, metric=alt))
    S.metric = case_b.system.metric
    _flows(S, case_b, dict(cfg, metric_reassigned_to=alt), acc,
           lambda kind, what, obs, exp, **kw: viol(kind, "after_metric_reassignment:" + what, obs,
                                                   exp, new_metric=alt, **kw),
           gaussian, cls, sts[:1], "metric_reassigned")
    acc.count("cases")
    if len(acc.samples) < 3:
        acc.sample({"config": cfg, "times": TIMES})


def _flows(S, case, cfg, acc, viol, gaussian, cls, sts, label):
    d = case.d
    Md = case.metric_ref(sts[0][0])
    cond = np.linalg.cond(Md)
    for si, (q, p) in enumerate(sts):
        zscale = 1.0 + max(np.max(np.abs(q)), np.max(np.abs(p)))
        for t in TIMES:
            # ---- h1 flow
            acc.count("evaluations")
            try:
                st = zoo.mk_state(q, p)
                S.h1_flow(st, t)
                g = fd_grad(case.h1_ref, q)
                if not np.array_equal(st.pos, q):
                    viol("h1_flow", "h1_flow_moves_position", st.pos, q, t=t, state=si)
                elif maxerr(st.mom, p - t * g) > 2e-6 * abs(t) * (1 + np.max(np.abs(g))):
                    viol("h1_flow", "h1_flow_kick", st.mom, p - t * g, t=t, state=si)
                else:
                    # the kick is the same every time it is applied at this position: again on
                    # the same state object, and on a copy of it (additivity in time)
                    cp = st.copy()
                    S.h1_flow(st, 0.5 * t)
                    S.h1_flow(cp, -t)
                    if maxerr(st.mom, p - 1.5 * t * g) > 3e-6 * abs(t) * (1 + np.max(np.abs(g))):
                        viol("h1_flow", "h1_flow_second_kick_on_same_state", st.mom,
                             p - 1.5 * t * g, t=t, state=si)
                    elif maxerr(cp.mom, p) > 3e-6 * abs(t) * (1 + np.max(np.abs(g))):
                        viol("h1_flow", "h1_flow_not_undone_on_copy", cp.mom, p, t=t, state=si)
            except Exception as e:  # noqa: BLE001
                viol("exception", "h1_flow:" + type(e).__name__, repr(e)[:200], "flow", t=t)
            # ---- h2 flow
            acc.count("evaluations")
            try:
                st = zoo.mk_state(q, p)
                S.h2_flow(st, t)
            except Exception as e:  # noqa: BLE001
                viol("exception", "h2_flow:" + type(e).__name__, repr(e)[:200], "flow", t=t)
                continue
            q1, p1, E = ref_h2_flow(case, gaussian, q, p, t)
            tol = 1e-10 * zscale * cond * max(1.0, abs(t))
            if maxerr(st.pos, q1) > tol or maxerr(st.mom, p1) > tol:
                viol("h2_flow", "h2_flow_exact_solution", [st.pos, st.mom], [q1, p1], t=t,
                     state=si)
                continue
            e0, e1 = case.h2_ref(q, p), case.h2_ref(np.array(st.pos), np.array(st.mom))
            if abs(e1 - e0) > 1e-10 * (1 + abs(e0)) * cond * max(1.0, abs(t)):
                viol("h2_flow", "h2_energy_conservation", e1, e0, t=t, state=si)
            acc.outcome((cls, cfg["metric"], label, t, si, round(float(np.sum(st.pos)), 9)))
            # inverse
            try:
                S.h2_flow(st, -t)
                if maxerr(st.pos, q) > 10 * tol or maxerr(st.mom, p) > 10 * tol:
                    viol("h2_flow", "h2_flow_inverse", [st.pos, st.mom], [q, p], t=t, state=si)
            except Exception as e:  # noqa: BLE001
                viol("exception", "h2_flow:" + type(e).__name__, repr(e)[:200], "flow", t=-t)
            # additivity
            for t2 in (0.35, -2.5):
                acc.count("evaluations")
                try:
                    sa = zoo.mk_state(q, p)
                    S.h2_flow(sa, t)
                    S.h2_flow(sa, t2)
                    sb = zoo.mk_state(q, p)
                    S.h2_flow(sb, t + t2)
                    if maxerr(sa.pos, sb.pos) > 20 * tol or maxerr(sa.mom, sb.mom) > 20 * tol:
                        viol("h2_flow", "h2_flow_additive", [sa.pos, sa.mom], [sb.pos, sb.mom],
                             t=[t, t2], state=si)
                except Exception as e:  # noqa: BLE001
                    viol("exception", "h2_flow:" + type(e).__name__, repr(e)[:200], "flow")
            # ---- dh2_flow_dmom
            if hasattr(S, "dh2_flow_dmom"):
                acc.count("evaluations")
                try:
                    st0 = zoo.mk_state(q, p)
                    dpos, dmom = S.dh2_flow_dmom(st0, t)
                    cols_q = np.stack([np.asarray(dpos @ e, dtype=float) for e in np.eye(d)], 1)
                    cols_p = np.stack([np.asarray(dmom @ e, dtype=float) for e in np.eye(d)], 1)
                    if maxerr(cols_q, E[:d, d:]) > tol or maxerr(cols_p, E[d:, d:]) > tol:
                        viol("dh2_flow_dmom", "dh2_flow_dmom_blocks", [cols_q, cols_p],
                             [E[:d, d:], E[d:, d:]], t=t, state=si)
                except Exception as e:  # noqa: BLE001
                    viol("exception", "dh2_flow_dmom:" + type(e).__name__, repr(e)[:200],
                         "matrices", t=t)


def run(tier, seed, acc):
    cfgs = configs(tier, seed)
    run_lattice(MOD, cfgs, acc)
    cov = {
        "evaluations": acc.counts.get("evaluations", 0),
        "distinct_nontrivial": len(acc.outcomes),
        "rule": "complete product of tractable-flow system class x every constant metric type "
                "(incl. implicit identity) x d=1..3 x t in +-{0.1,1,7}; flows compared with "
                "closed form / matrix exponential; distinct = distinct (class, metric, t, state, "
                "end position)",
        "exhaustive": True,
        "bounds": {"configs": len(cfgs), "times": list(TIMES)},
    }
    return cov, ["h2 flows are linear: matrix exponential (SciPy expm) is the reference",
                 "states from the zoo lattice"]


def replay(rec):
    return replay_lattice(MOD, rec)
