"""C16 - adaptation is confined to warm-up and stages partition the iterations exactly.

(i) Stager.stages as a pure function: complete enumeration of warm-up counts, window settings,
multipliers, adapter mixes (invariants on the returned stage dictionary).
(ii) Real sequential sample_chains runs with recording subclasses of the adapters and a recording
wrapper around the integration transition: no update in the main stage, step size and metric
constant over the main stage and equal to the values left by the finalize of the last warm-up stage
in which at least one update ran (initial values if none).
"""

from __future__ import annotations

import signal

import numpy as np

from mc.lattice import run_lattice

MOD = "mc.props.c16"


class _Timeout(Exception):
    pass


def _alarm(signum, frame):
    raise _Timeout()


class FakeAdapter:
    def __init__(self, fast, name):
        self.is_fast = fast
        self.name = name


ADAPTER_MIXES = {
    "none": [], "fast": [("f1", True)], "slow": [("s1", False)],
    "fast+slow": [("f1", True), ("s1", False)],
    "fast+slow+fast": [("f1", True), ("s1", False), ("f2", True)],
}


def check_stages(cfg, acc):
    from mici import stagers

    win = cfg["window"]
    mult = cfg["mult"]
    F = {"stager": cfg["stager"], "what": None}

    def viol(what, obs, exp, **kw):
        acc.violation(driver="stages", config=cfg, fields={"stager": cfg["stager"], "what": what},
                      kind="stage_structure", observed=obs, expected=exp, **kw)

    if cfg["stager"] == "windowed":
        stager = stagers.WindowedWarmUpStager(win[0], win[1], win[2], mult)
    else:
        stager = stagers.WarmUpStager()
    old = signal.signal(signal.SIGALRM, _alarm)
    try:
        for n_warm in cfg["n_warm_list"]:
            for n_main in (0, 1, 7):
                for mix_name, mix in ADAPTER_MIXES.items():
                    for twu in (False, True):
                        acc.count("evaluations")
                        adapters = {"t": [FakeAdapter(f, n) for n, f in mix]}
                        tf = [lambda s: {}]
                        signal.setitimer(signal.ITIMER_REAL, 5.0)
                        try:
                            st = stager.stages(n_warm, n_main, adapters, tf, trace_warm_up=twu)
                        except _Timeout:
                            viol("does_not_terminate", "no return within 5 s", "returns",
                                 n_warm=n_warm, n_main=n_main, mix=mix_name)
                            continue
                        except Exception as e:  # noqa: BLE001
                            viol("raises:" + type(e).__name__, repr(e)[:200], "a stage dict",
                                 n_warm=n_warm, n_main=n_main, mix=mix_name)
                            continue
                        finally:
                            signal.setitimer(signal.ITIMER_REAL, 0)
                        stages = list(st.items())
                        ctx = dict(n_warm=n_warm, n_main=n_main, mix=mix_name,
                                   stages=[(k, s.n_iter) for k, s in stages])
                        if n_main > 0:
                            if not stages or stages[-1][1].n_iter != n_main or \
                                    stages[-1][1].adapters:
                                viol("last_stage_not_main", ctx["stages"][-1:] if stages else [],
                                     f"non-adaptive main stage of length {n_main}", **ctx)
                                continue
                            warm = stages[:-1]
                            main = stages[-1][1]
                            if main.trace_funcs is None or not main.record_stats:
                                viol("main_stage_not_recorded", str(main)[:100],
                                     "main stage traces and records statistics", **ctx)
                                continue
                        else:
                            warm = stages
                        if any(s.n_iter < 0 for _, s in stages):
                            viol("negative_stage_length", ctx["stages"], "lengths >= 0", **ctx)
                            continue
                        tot = sum(s.n_iter for _, s in warm)
                        if tot != n_warm:
                            viol("warm_up_lengths_do_not_sum", tot, n_warm, **ctx)
                            continue
                        bad = False
                        for key, s in warm:
                            names = sorted(a.name for a in (s.adapters or {}).get("t", []))
                            fast = sorted(n for n, f in mix if f)
                            allnames = sorted(n for n, f in mix)
                            is_slow_stage = key.startswith("Slow adaptive")
                            if cfg["stager"] == "windowed":
                                want = allnames if is_slow_stage else fast
                            else:
                                want = allnames
                            if names != want:
                                viol("wrong_adapters_in_stage", {"stage": key, "adapters": names},
                                     want, **ctx)
                                bad = True
                                break
                            if (s.trace_funcs is not None) != twu or s.record_stats != twu:
                                viol("warm_up_tracing_flag", {"stage": key}, twu, **ctx)
                                bad = True
                                break
                        if bad:
                            continue
                        acc.outcome((cfg["stager"], tuple(win), mult,
                                     tuple(s.n_iter for _, s in stages), mix_name))
    finally:
        signal.signal(signal.SIGALRM, old)


# ---------------------------------------------------------------------------------------------
# (ii) real runs
# ---------------------------------------------------------------------------------------------


def make_recording_adapters(log, mix):
    from mici import adapters as A

    def rec(cls, name):
        class R(cls):
            def initialize(self, chain_state, transition):
                log.append(("initialize", name))
                return super().initialize(chain_state, transition)

            def update(self, adapt_state, chain_state, trans_stats, transition):
                log.append(("update", name))
                return super().update(adapt_state, chain_state, trans_stats, transition)

            def finalize(self, adapt_states, chain_states, transition, rngs):
                out = super().finalize(adapt_states, chain_states, transition, rngs)
                log.append(("finalize", name, float(transition.integrator.step_size)
                            if transition.integrator.step_size is not None else None,
                            metric_digest(transition.system.metric)))
                return out

        R.__name__ = "Recording" + cls.__name__
        return R()

    out = []
    for m in mix:
        cls = {"step": A.DualAveragingStepSizeAdapter, "var": A.OnlineVarianceMetricAdapter,
               "covar": A.OnlineCovarianceMetricAdapter}[m]
        out.append(rec(cls, m))
    return out


def metric_digest(metric):
    try:
        return tuple(np.round(np.asarray(metric.array, dtype=float).ravel(), 12).tolist())
    except Exception:  # noqa: BLE001
        return ("implicit",)


def check_run(cfg, acc):
    import mici
    from mici import stagers
    from mici.errors import AdaptationError

    log = []
    d = 2
    A = np.array([[1.0, 0.3], [0.3, 0.7]])
    system = mici.systems.EuclideanMetricSystem(
        lambda q: 0.5 * q @ A @ q + 0.1 * np.sum(q**4),
        grad_neg_log_dens=lambda q: A @ q + 0.4 * q**3, metric=np.array([1.0, 2.0]))
    integ = mici.integrators.LeapfrogIntegrator(system, step_size=0.123)
    rng = np.random.default_rng(1234 + cfg["seed"])
    sampler = mici.samplers.StaticMetropolisHMC(system, integ, rng, n_step=2)
    inner = sampler.transitions["integration_transition"]
    orig_sample = inner.sample

    def sample(state, r):
        log.append(("sample", float(integ.step_size), metric_digest(system.metric)))
        return orig_sample(state, r)

    inner.sample = sample
    adapters = make_recording_adapters(log, cfg["mix"])
    if cfg["stager"] == "warmup":
        stager = stagers.WarmUpStager()
    elif cfg["stager"] == "windowed":
        stager = stagers.WindowedWarmUpStager()
    elif cfg["stager"] == "windowed_small":
        stager = stagers.WindowedWarmUpStager(3, 2, 2, 2.0)
    else:
        stager = None
    n_chain = cfg["n_chain"]
    init = [np.array([0.3 * (c + 1), -0.2 * (c + 1)]) for c in range(n_chain)]
    initial = (0.123, metric_digest(system.metric))
    F = {"stager": cfg["stager"], "mix": "+".join(cfg["mix"]) or "none"}

    def viol(what, obs, exp, **kw):
        acc.violation(driver="run", config=cfg, fields={**F, "what": what},
                      kind="adaptation_confinement", observed=obs, expected=exp, **kw)

    acc.count("evaluations")
    try:
        sampler.sample_chains(cfg["n_warm"], cfg["n_main"], init, adapters=adapters,
                              stager=stager, n_process=1, display_progress=False,
                              trace_warm_up=cfg["trace_warm_up"])
    except AdaptationError:
        acc.count("adaptation_error_refused")
        return
    except Exception as e:  # noqa: BLE001
        viol("raises:" + type(e).__name__, repr(e)[:200], "returns")
        return
    n_main_samples = n_chain * cfg["n_main"]
    sample_idx = [i for i, e in enumerate(log) if e[0] == "sample"]
    if len(sample_idx) != n_chain * (cfg["n_warm"] + cfg["n_main"]):
        viol("iteration_count", len(sample_idx), n_chain * (cfg["n_warm"] + cfg["n_main"]))
        return
    if n_main_samples == 0:
        acc.outcome(("run", F["stager"], F["mix"], cfg["n_warm"], 0))
        return
    first_main = sample_idx[-n_main_samples]
    main_events = log[first_main:]
    if any(e[0] in ("update", "initialize", "finalize") for e in main_events):
        viol("adapter_called_in_main_stage", [e[:2] for e in main_events if e[0] != "sample"][:4],
             "no adapter activity in the main stage")
        return
    vals = {(e[1], e[2]) for e in main_events if e[0] == "sample"}
    if len(vals) != 1:
        viol("parameters_change_during_main_stage", sorted(vals)[:3], "constant")
        return
    used = next(iter(vals))
    # expected: values left by the finalize of the last warm-up stage in which >= 1 update ran
    warm = log[:first_main]
    # split warm-up log into stages: a stage ends after its block of finalize events
    stages, cur = [], []
    for e in warm:
        if cur and cur[-1][0] == "finalize" and e[0] != "finalize":
            stages.append(cur)
            cur = []
        cur.append(e)
    if cur:
        stages.append(cur)
    exp_step, exp_metric = initial
    for st in stages:
        upd = {e[1] for e in st if e[0] == "update"}
        fins = [e for e in st if e[0] == "finalize"]
        if "step" in upd:
            f = [e for e in fins if e[1] == "step"]
            if f:
                exp_step = f[-1][2]
        if upd & {"var", "covar"}:
            f = [e for e in fins if e[1] in ("var", "covar")]
            if f:
                exp_metric = f[-1][3]
    if abs(used[0] - exp_step) > 1e-12 * max(1.0, abs(exp_step)):
        viol("main_stage_step_size", used[0], exp_step,
             stages=[(sum(1 for e in s if e[0] == "sample"), sorted({e[1] for e in s
                     if e[0] == "update"})) for s in stages])
        return
    if used[1] != exp_metric:
        viol("main_stage_metric", used[1], exp_metric)
        return
    acc.outcome(("run", F["stager"], F["mix"], cfg["n_warm"], cfg["n_main"], cfg["n_chain"],
                 round(used[0], 9)))


def analyse_log(log, n_main_samples, initial, n_chain=None):
    """Oracle on one transition's event log.  Returns None or (what, observed, expected)."""
    sample_idx = [i for i, e in enumerate(log) if e[0] == "sample"]
    if n_main_samples == 0 or len(sample_idx) < n_main_samples:
        return None
    first_main = sample_idx[-n_main_samples]
    main_events = log[first_main:]
    if any(e[0] in ("update", "initialize", "finalize") for e in main_events):
        return ("adapter_called_in_main_stage",
                [e[:2] for e in main_events if e[0] != "sample"][:4],
                "no adapter activity in the main stage")
    vals = {(e[1], e[2]) for e in main_events if e[0] == "sample"}
    if len(vals) != 1:
        return ("parameters_change_during_main_stage", sorted(vals)[:3], "constant")
    used = next(iter(vals))
    warm = log[:first_main]
    stages, cur = [], []
    for e in warm:
        if cur and cur[-1][0] == "finalize" and e[0] != "finalize":
            stages.append(cur)
            cur = []
        if cur and e[0] == "initialize" and n_chain is not None:
            # every chain initialises each adapter once per stage: one more initialize of the
            # same adapter means a new stage started although this one was never finalized
            if sum(1 for x in cur if x[0] == "initialize" and x[1] == e[1]) >= n_chain:
                stages.append(cur)
                cur = []
        cur.append(e)
    if cur:
        stages.append(cur)
    exp_step, exp_metric = initial
    for st in stages:
        upd = {e[1] for e in st if e[0] == "update"}
        fins = [e for e in st if e[0] == "finalize"]
        if upd and not fins:
            return ("stage_updated_but_not_finalized", sorted(upd),
                    "finalize after every stage that performed updates")
        if "step" in upd:
            f = [e for e in fins if e[1] == "step"]
            if f:
                exp_step = f[-1][2]
        if upd & {"var", "covar"}:
            f = [e for e in fins if e[1] in ("var", "covar")]
            if f:
                exp_metric = f[-1][3]
    if abs(used[0] - exp_step) > 1e-12 * max(1.0, abs(exp_step)):
        return ("main_stage_step_size", used[0], exp_step)
    if used[1] != exp_metric:
        return ("main_stage_metric", used[1], exp_metric)
    return None


def check_run_two_transitions(cfg, acc):
    """Generic sampler with TWO adapted integration transitions (adapter dict with two keys)."""
    import mici
    from mici import stagers
    from mici.errors import AdaptationError
    from mici.states import ChainState

    A = np.array([[1.0, 0.3], [0.3, 0.7]])
    logs, systems, integs, trans, adapters, initial = {}, {}, {}, {}, {}, {}
    for key, eps, mix in (("first", 0.11, cfg["mix_first"]), ("second", 0.23, cfg["mix_second"])):
        logs[key] = []
        systems[key] = mici.systems.EuclideanMetricSystem(
            lambda q: 0.5 * q @ A @ q, grad_neg_log_dens=lambda q: A @ q,
            metric=np.array([1.0, 2.0]))
        integs[key] = mici.integrators.LeapfrogIntegrator(systems[key], step_size=eps)
        trans[key] = mici.transitions.MetropolisStaticIntegrationTransition(
            systems[key], integs[key], n_step=1)
        initial[key] = (eps, metric_digest(systems[key].metric))
        orig = trans[key].sample

        def sample(state, r, key=key, orig=orig):
            logs[key].append(("sample", float(integs[key].step_size),
                              metric_digest(systems[key].metric)))
            out = orig(state, r)
            if key == "second" and cfg.get("second_no_stats"):
                # a transition that reports no statistics (like the momentum transitions)
                return out[0], None
            return out

        trans[key].sample = sample
        if mix:
            adapters[key] = make_recording_adapters(logs[key], mix)
    transitions = {"momentum": mici.transitions.IndependentMomentumTransition(systems["first"]),
                   "first": trans["first"], "second": trans["second"]}
    stager = stagers.WindowedWarmUpStager(3, 2, 2, 2.0) if cfg["stager"] == "windowed_small" \
        else stagers.WarmUpStager()
    sampler = mici.samplers.MarkovChainMonteCarloMethod(np.random.default_rng(5), transitions)
    inits = [ChainState(pos=np.array([0.3, -0.2 * (c + 1)]), mom=np.array([0.5, 0.1]), dir=1)
             for c in range(cfg["n_chain"])]
    F = {"stager": cfg["stager"], "mix": "+".join(cfg["mix_first"]) + "|"
         + "+".join(cfg["mix_second"])}
    acc.count("evaluations")
    try:
        sampler.sample_chains(cfg["n_warm"], cfg["n_main"], inits, adapters=adapters,
                              stager=stager, n_process=1, display_progress=False)
    except AdaptationError as e:
        if cfg.get("second_no_stats"):
            # single adaptive stage of n_warm >= 2 iterations: every adapter sees enough samples
            acc.violation(driver="run2", config=cfg,
                          fields={**F, "what": "adapter_on_transition_without_statistics_starved"},
                          kind="adaptation_confinement", observed=repr(e)[:200],
                          expected="adapters are updated in every iteration of their stages")
            return
        acc.count("adaptation_error_refused")
        return
    except Exception as e:  # noqa: BLE001
        acc.violation(driver="run2", config=cfg,
                      fields={**F, "what": "raises:" + type(e).__name__},
                      kind="adaptation_confinement", observed=repr(e)[:200], expected="returns")
        return
    for key in ("first", "second"):
        r = analyse_log(logs[key], cfg["n_chain"] * cfg["n_main"], initial[key], cfg["n_chain"])
        if r is not None:
            acc.violation(driver="run2", config=cfg, fields={**F, "what": r[0]},
                          kind="adaptation_confinement", observed=r[1], expected=r[2],
                          transition=key)
            return
    acc.outcome(("run2", F["stager"], F["mix"], cfg["n_warm"], cfg["n_main"], cfg["n_chain"]))


def check_interrupted(cfg, acc):
    """A warm-up stage interrupted after k adaptation updates, then the sampler is re-used for a
    main-only call: the main stage must use the value FINALIZED by that (last, updated) warm-up
    stage - not the raw last iterate, not the initial default."""
    import logging
    import mici

    log = []
    A = np.array([[1.0, 0.3], [0.3, 0.7]])
    system = mici.systems.EuclideanMetricSystem(
        lambda q: 0.5 * q @ A @ q + 0.1 * np.sum(q**4),
        grad_neg_log_dens=lambda q: A @ q + 0.4 * q**3, metric=np.array([1.0, 2.0]))
    integ = mici.integrators.LeapfrogIntegrator(system, step_size=0.123)
    sampler = mici.samplers.StaticMetropolisHMC(system, integ,
                                                np.random.default_rng(99 + cfg["seed"]), n_step=2)
    inner = sampler.transitions["integration_transition"]
    orig_sample = inner.sample
    calls = {"n": 0}

    def sample(state, r):
        log.append(("sample", float(integ.step_size)))
        return orig_sample(state, r)

    inner.sample = sample

    def trace(state):
        calls["n"] += 1
        # call 1 is made while the trace arrays are set up (outside any iteration)
        if calls["n"] == cfg["k"] + 1:
            raise KeyboardInterrupt
        return {"pos": state.pos}

    adapters = make_recording_adapters(log, ("step",))
    n_chain = cfg["n_chain"]
    init = [np.array([0.3 * (c + 1), -0.2 * (c + 1)]) for c in range(n_chain)]
    F = {"stager": "warmup", "mix": "step"}
    acc.count("evaluations")
    logging.disable(logging.CRITICAL)
    try:
        out = sampler.sample_chains(cfg["n_warm"], 2, init, adapters=adapters, n_process=1,
                                    display_progress=False, trace_funcs=[trace],
                                    trace_warm_up=True)
        n_before = len(log)
        updates = sum(1 for e in log if e[0] == "update")
        finals = [e for e in log if e[0] == "finalize"]
        calls["n"] = -10**9
        sampler.sample_chains(0, 2, out.final_states, adapters=[], n_process=1,
                              display_progress=False, trace_funcs=[trace])
    except BaseException as e:  # noqa: BLE001
        acc.violation(driver="interrupted", config=cfg,
                      fields={**F, "what": "raises:" + type(e).__name__},
                      kind="adaptation_confinement", observed=repr(e)[:200], expected="returns")
        return
    finally:
        logging.disable(logging.NOTSET)
    used = sorted({e[1] for e in log[n_before:] if e[0] == "sample"})
    if updates >= 1:
        if not finals:
            acc.violation(driver="interrupted", config=cfg,
                          fields={**F, "what": "interrupted_stage_with_updates_never_finalized"},
                          kind="adaptation_confinement",
                          observed={"updates": updates, "main_stage_step_sizes": used},
                          expected="finalize after every stage that performed updates")
            return
        if used != [finals[-1][2]]:
            acc.violation(driver="interrupted", config=cfg,
                          fields={**F, "what": "resumed_main_stage_uses_unfinalized_value"},
                          kind="adaptation_confinement", observed=used, expected=[finals[-1][2]])
            return
    acc.outcome(("interrupted", cfg["k"], n_chain, updates, tuple(used)))


def check_config(cfg, acc):
    if cfg["mode"] == "interrupted":
        check_interrupted(cfg, acc)
        acc.count("cases")
        return
    if cfg["mode"] == "run2":
        check_run_two_transitions(cfg, acc)
        acc.count("cases")
        return
    if cfg["mode"] == "stages":
        check_stages(cfg, acc)
    else:
        check_run(cfg, acc)
    acc.count("cases")
    if len(acc.samples) < 3:
        acc.sample({k: v for k, v in cfg.items() if k != "n_warm_list"})


def configs(tier, seed):
    cfgs = []
    warm_all = list(range(0, 401)) + [1000, 1003]
    chunks = [warm_all[i::8] for i in range(8)]
    windows = [1, 5, 25, 75]
    for w0 in windows:
        for w1 in windows:
            for w2 in windows:
                for mult in (1, 1.5, 2, 3):
                    if tier == "quick" and (w0, w1, w2, mult) not in (
                            (25, 75, 25, 2), (1, 1, 1, 1), (5, 25, 75, 1.5), (75, 5, 1, 3),
                            (25, 75, 75, 2), (5, 5, 5, 2), (1, 75, 5, 3), (25, 25, 25, 1)):
                        continue
                    for ch in chunks:
                        cfgs.append({"mode": "stages", "stager": "windowed",
                                     "window": [w0, w1, w2], "mult": mult, "n_warm_list": ch})
    # defaults (25, 75, 50, 2.0) and the test-suite setting (125, 50, 25, 3)
    for win, mult in (([25, 75, 50], 2.0), ([125, 50, 25], 3)):
        for ch in chunks:
            cfgs.append({"mode": "stages", "stager": "windowed", "window": win, "mult": mult,
                         "n_warm_list": ch})
    cfgs.append({"mode": "stages", "stager": "warmup", "window": [0, 0, 0], "mult": 1,
                 "n_warm_list": warm_all})
    warm_run = list(range(0, 13)) + [20] + ([150] if tier == "thorough" else [])
    for stager in ("warmup", "windowed", "windowed_small", "default"):
        for mix in ([], ["step"], ["var"], ["step", "var"], ["step", "covar"]):
            for n_warm in warm_run:
                for n_main in (0, 1, 3):
                    for n_chain in (1, 2):
                        if stager == "default" and n_chain == 2:
                            continue
                        cfgs.append({"mode": "run", "stager": stager, "mix": mix,
                                     "n_warm": n_warm, "n_main": n_main, "n_chain": n_chain,
                                     "trace_warm_up": (n_warm + n_main) % 2 == 0, "seed": seed})
    for stager in ("warmup", "windowed_small"):
        for mix_first, mix_second in ((["var"], ["step"]), (["step"], ["var"]),
                                      (["step"], ["step", "var"]), ([], ["step"]),
                                      (["step", "var"], ["step"])):
            for n_warm in (0, 5, 9, 12, 20):
                for n_chain in (1, 2):
                    cfgs.append({"mode": "run2", "stager": stager, "mix_first": mix_first,
                                 "mix_second": mix_second, "n_warm": n_warm, "n_main": 2,
                                 "n_chain": n_chain, "seed": seed})
    # a warm-up stage interrupted after k iterations, sampler re-used for the main stage
    for n_chain in (1, 2):
        for k in range(1, 7):
            cfgs.append({"mode": "interrupted", "n_warm": 6, "k": k, "n_chain": n_chain,
                         "seed": seed})
    # an adapted transition that reports no statistics (metric adapters do not need any)
    for mix_second in (("var",), ("covar",)):
        for n_warm in (2, 5):
            for n_chain in (1, 2):
                cfgs.append({"mode": "run2", "stager": "warmup", "mix_first": ("step",),
                             "mix_second": mix_second, "n_warm": n_warm, "n_main": 2,
                             "n_chain": n_chain, "seed": seed, "second_no_stats": True})
    return cfgs


def run(tier, seed, acc):
    cfgs = configs(tier, seed)
    run_lattice(MOD, cfgs, acc, shards_per_worker=8)
    c = acc.counts
    cov = {
        "states": len(acc.outcomes),
        "transitions": c.get("evaluations", 0),
        "traces_validated_against_impl": c.get("evaluations", 0),
        "evaluations": c.get("evaluations", 0),
        "distinct_nontrivial": len(acc.outcomes),
        "rule": "(i) stages(): n_warm_up in 0..400 + {1000,1003} x n_main {0,1,7} x window "
                "settings x multipliers x adapter mixes x trace_warm_up; (ii) real sequential "
                "sample_chains runs over n_warm_up {0..12,20(,150)} x n_main {0,1,3} x chains "
                "{1,2} x stagers x adapter mixes with recording adapters and transition; states = "
                "distinct (stage-length tuples / run outcomes), transitions = calls / runs",
        "exhaustive": True,
        "bounds": {"configs": len(cfgs),
                   "adaptation_error_refused": c.get("adaptation_error_refused", 0)},
    }
    return cov, ["a run that raises AdaptationError to the caller (too few samples for a variance "
                 "estimate) is an explicit refusal and is counted, not judged"]


def replay(rec):
    from mc.lattice import replay_lattice

    return replay_lattice(MOD, rec)
