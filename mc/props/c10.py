"""C10 - structured matrix expressions agree with dense linear algebra.

Enumerates all expression trees up to a depth bound over the matrix zoo (every class x constructor
option x size 1..3 plus composite constructors) and compares every observable of every node with
the same tree evaluated on dense NumPy arrays.
"""

from __future__ import annotations

import numpy as np

from mc import mzoo
from mc.lattice import replay_lattice, run_lattice

MOD = "mc.props.c10"
SCALARS = (2, -0.5)


def unary_ops(rec):
    out = [["T", rec], ["neg", rec], ["mul", 2, rec], ["mul", -0.5, rec], ["rmul", 2, rec],
           ["rmul", -0.5, rec], ["div", 2, rec], ["div", -0.5, rec], ["inv", rec], ["sqrt", rec]]
    return out


def roots(n):
    return mzoo.leaf_recipes(n) + mzoo.composite_recipes(n)


SUBSET = ["identity", "scaled_identity_neg", "pos_diagonal", "triangular_upper",
          "inverse_triangular_lower", "tri_factored_definite_neg_lower_array", "dense_pd",
          "dense_square_lu", "inverse_lu", "dense_symmetric_eig", "orthogonal",
          "eigendecomposed_symmetric", "softabs"]


def configs(tier, seed):
    """Each config is a group of programs sharing one root (keeps shards balanced)."""
    cfgs = []
    for n in (1, 2, 3):
        rts = roots(n)
        rects = mzoo.rect_recipes(n)
        for r in rts + rects:
            cfgs.append({"seed": seed, "mode": "chain", "root": r,
                         "depth": 2 if tier == "quick" else 3})
        # products
        pool = rts if tier == "thorough" else [r for r in rts if r[0] != "leaf"
                                                or r[1] in SUBSET]
        for a in rts:
            cfgs.append({"seed": seed, "mode": "product", "left": a, "n": n,
                         "pool": "full" if tier == "thorough" else "subset",
                         "depth": 1 if tier == "quick" else 2})
        for a in rects:
            cfgs.append({"seed": seed, "mode": "product_rect", "left": a, "n": n})
    for n in LARGE_SIZES:
        for scale in LARGE_SCALES:
            cfgs.append({"seed": seed, "mode": "large", "n": n, "scale": scale})
    return cfgs


def _pool(n, which):
    rts = roots(n)
    if which == "full":
        return rts
    return [r for r in rts if r[0] != "leaf" or r[1] in SUBSET]


def programs_of(cfg):
    mode = cfg["mode"]
    if mode == "chain":
        level = [cfg["root"]]
        yield cfg["root"]
        for _ in range(cfg["depth"]):
            nxt = []
            for r in level:
                for u in unary_ops(r):
                    nxt.append(u)
                    yield u
            level = nxt
    elif mode == "product":
        a = cfg["left"]
        for b in _pool(cfg["n"], cfg["pool"]):
            p = ["matmul", a, b]
            yield p
            if cfg["depth"] >= 1:
                for u in unary_ops(p):
                    yield u
                # products whose operands are themselves unary results
                yield ["matmul", ["T", a], ["inv", b]]
                yield ["matmul", ["inv", a], ["mul", -0.5, b]]
                yield ["matmul", ["neg", a], ["T", b]]
            if cfg["depth"] >= 2:
                for u in unary_ops(p):
                    for u2 in unary_ops(u):
                        yield u2
                for c in _pool(cfg["n"], "subset"):
                    yield ["matmul", p, c]
                    yield ["inv", ["matmul", p, c]]
    elif mode == "product_rect":
        a = cfg["left"]
        n = cfg["n"]
        for b in mzoo.rect_recipes(n) + _pool(n, "subset") + _pool(n + 1, "subset"):
            yield ["matmul", a, b]
            yield ["T", ["matmul", a, b]]
            yield ["matmul", ["T", b], ["T", a]]
            yield ["mul", 2, ["matmul", a, b]]


class Skip(Exception):
    pass


def offers(m, name):
    """Does the matrix offer the attribute?  AttributeError means no; any other exception means
    it is offered but broken (and is then judged where the observable is compared)."""
    try:
        getattr(m, name)
        return True
    except AttributeError:
        return False
    except Exception:  # noqa: BLE001
        return True


def _valid(rec, seed):
    """Decide from dense references alone whether the program is well-defined."""
    return True


def evaluate(rec, seed):
    """Build the program; library exceptions propagate with the failing sub-recipe attached."""
    return mzoo.build(rec, seed)


def applicable(rec, seed, cache):
    """Static applicability from the *types and dense values* of sub-expressions: inv needs an
    invertible-typed well-conditioned operand, sqrt a PD-typed operand, matmul matching shapes."""
    return True


def observables(m, d, acc, cfg, rec, seed):
    from mici import matrices as M

    rows, cols = d.shape
    rng_v = np.array([0.7, -1.3, 0.4, 1.9, -0.6])
    v_r, v_c = rng_v[:cols], rng_v[:rows]
    V_r = np.stack([rng_v[:cols], rng_v[::-1][:cols]], axis=1)
    V_c = np.stack([rng_v[:rows], rng_v[::-1][:rows]], axis=0)
    cond = np.linalg.cond(d) if rows == cols else 1.0
    scale = 1.0 + float(np.max(np.abs(d)))
    tol = 1e-10 * scale * max(1.0, min(cond, 1e8))

    def cmp(name, fn, want, tolx=None):
        acc.count("evaluations")
        try:
            got = np.asarray(fn(), dtype=float)
        except Exception as e:  # noqa: BLE001
            report(name, "exception", repr(e)[:200], "value")
            return None
        want_a = np.asarray(want, dtype=float)
        t = tol if tolx is None else tolx
        if got.shape != want_a.shape or not np.all(np.isfinite(got)) or \
                np.max(np.abs(got - want_a), initial=0.0) > t * (1.0 + np.max(np.abs(want_a),
                                                                              initial=0.0)):
            report(name, "value_mismatch", got, want_a)
        return got

    def report(name, kind, got, want):
        acc.violation(driver="programs", config={"program": rec, "seed": seed},
                      fields={"node_class": type(m).__name__, "observable": name}, kind=kind,
                      observed=got, expected=want)

    if tuple(m.shape) != d.shape:
        report("shape", "value_mismatch", m.shape, d.shape)
        return
    cmp("array", lambda: m.array, d)
    cmp("matmul_vec", lambda: m @ v_r, d @ v_r)
    cmp("matmul_mat", lambda: m @ V_r, d @ V_r)
    cmp("rmatmul_vec", lambda: v_c @ m, v_c @ d)
    cmp("rmatmul_mat", lambda: V_c @ m, V_c @ d)
    cmp("diagonal", lambda: m.diagonal, np.diagonal(d))
    cmp("T.array", lambda: m.T.array, d.T)
    if isinstance(m, M.SquareMatrix) and cond < 1e8:
        cmp("log_abs_det", lambda: m.log_abs_det, np.linalg.slogdet(d)[1],
            1e-9 * max(1.0, np.log(max(cond, 1.0))))
    if isinstance(m, M.InvertibleMatrix) and cond < 1e6:
        di = np.linalg.inv(d)
        tinv = 1e-10 * (1.0 + np.max(np.abs(di))) * cond
        cmp("inv.array", lambda: m.inv.array, di, tinv)
        cmp("inv_matmul_vec", lambda: m.inv @ v_c, np.linalg.solve(d, v_c), tinv)
    if offers(m, "eigval") and np.allclose(d, d.T, atol=1e-12):
        w_ref = np.linalg.eigvalsh(d)
        w = cmp("eigval", lambda: np.sort(np.asarray(m.eigval, dtype=float)), w_ref)
        if w is not None:
            def eig_resid():
                E = np.asarray(m.eigvec.array, dtype=float)
                wv = np.asarray(m.eigval, dtype=float)
                return np.concatenate([(d @ E - E * wv).ravel(), (E.T @ E - np.eye(rows)).ravel()])
            cmp("eigvec", eig_resid, np.zeros(2 * rows * rows))
    if isinstance(m, M.PositiveDefiniteMatrix):
        def sq():
            s = np.asarray(m.sqrt.array, dtype=float)
            return s @ s.T
        cmp("sqrt", sq, d)
        cmp("sqrt_action", lambda: m.sqrt @ (m.sqrt.T @ v_r), d @ v_r)
    acc.outcome((type(m).__name__, round(float(np.sum(d * np.arange(1, d.size + 1).reshape(d.shape))), 7)))


def type_clause(rec, m, operand, acc, seed):
    """Results that are mathematically PD / symmetric stay usable as such."""
    from mici import matrices as M

    op = rec[0]
    if operand is None:
        return
    acc.count("evaluations")
    bad = None
    if op == "T" and isinstance(operand, M.SymmetricMatrix) and m is not operand:
        # a new object is fine as long as it is still symmetric-typed
        if not isinstance(m, M.SymmetricMatrix):
            bad = "transpose of symmetric-typed matrix lost eigval/eigvec interface"
    if op == "inv" and isinstance(operand, M.PositiveDefiniteMatrix) and \
            not (offers(m, "sqrt") and offers(m, "inv")):
        bad = "inverse of positive-definite-typed matrix has no sqrt/inv"
    if op in ("mul", "rmul", "div") and isinstance(operand, M.PositiveDefiniteMatrix) and \
            rec[1] > 0 and not (offers(m, "sqrt") and offers(m, "inv")):
        bad = "positive multiple of positive-definite-typed matrix has no sqrt/inv"
    if op in ("mul", "rmul", "div", "neg") and isinstance(operand, M.SymmetricMatrix) and \
            not (offers(m, "eigval") and offers(m, "eigvec")):
        bad = "scalar multiple of symmetric-typed matrix has no eigval/eigvec"
    if bad:
        acc.violation(driver="programs", config={"program": rec, "seed": seed},
                      fields={"node_class": type(m).__name__, "observable": "type:" + op},
                      kind="type_clause", observed=bad, expected="usable as PD/symmetric")


def check_program(rec, seed, acc):
    from mici import matrices as M

    # applicability of the top operation decided from the operand (types + dense conditioning)
    op = rec[0]
    operand = None
    if op in ("T", "inv", "sqrt", "neg", "mul", "rmul", "div"):
        sub = rec[-1]
        try:
            operand, dsub = mzoo.build(sub, seed)
        except Exception:  # noqa: BLE001
            return "skipped_operand_failed"  # reported where that operand is the program
        if op == "inv":
            if not isinstance(operand, M.InvertibleMatrix):
                return "not_applicable"
            if np.linalg.cond(dsub) > 1e6:
                return "not_applicable"
        if op == "sqrt" and not isinstance(operand, M.PositiveDefiniteMatrix):
            return "not_applicable"
    if op == "matmul":
        try:
            a, da = mzoo.build(rec[1], seed)
            b, db = mzoo.build(rec[2], seed)
        except Exception:  # noqa: BLE001
            return "skipped_operand_failed"
        if da.shape[1] != db.shape[0]:
            return "not_applicable"
    try:
        m, d = mzoo.build(rec, seed)
    except mzoo.SqrtMismatch as e:
        if e.rec == rec:
            acc.violation(driver="programs", config={"program": rec, "seed": seed},
                          fields={"node_class": type(operand).__name__, "observable": "sqrt"},
                          kind="value_mismatch", observed=e.got, expected=e.want)
            return "violation"
        return "skipped_operand_failed"
    except Exception as e:  # noqa: BLE001
        acc.violation(driver="programs", config={"program": rec, "seed": seed},
                      fields={"node_class": type(operand).__name__ if operand is not None
                              else "constructor", "observable": "op:" + op},
                      kind="exception", observed=repr(e)[:300], expected="a matrix")
        return "violation"
    if not isinstance(m, M.Matrix):
        acc.violation(driver="programs", config={"program": rec, "seed": seed},
                      fields={"node_class": type(m).__name__, "observable": "op:" + op},
                      kind="type_clause", observed=type(m).__name__, expected="a Matrix")
        return "violation"
    observables(m, d, acc, None, rec, seed)
    type_clause(rec, m, operand, acc, seed)
    return "checked"


# ---------------------------------------------------------------------------------------------
# large sizes x scales: determinants that leave the double range while their logarithm is ordinary
# ---------------------------------------------------------------------------------------------

LARGE_SIZES = (1, 60, 400)
LARGE_SCALES = (1e-3, 0.05, 1.0, 30.0, 1e6)


def large_builders(n, scale, seed):
    """(name, factory, dense) for classes that can be built at any size from simple arrays."""
    from mici import matrices as M

    k = np.arange(n)
    d = scale * (1.0 + 0.5 * np.cos(k + seed))                      # positive diagonal
    L = np.diag(d) + 0.01 * scale * np.tril(np.sin(np.add.outer(k, 2.0 * k) + seed), -1)
    A = L @ L.T                                                      # SPD, Cholesky factor L
    ev, evec = None, None
    out = [
        ("scaled_identity", lambda: M.ScaledIdentityMatrix(-scale, n), -scale * np.eye(n)),
        ("pos_diagonal", lambda: M.PositiveDiagonalMatrix(d.copy()), np.diag(d)),
        ("triangular_lower", lambda: M.TriangularMatrix(L.copy(), lower=True), L),
        ("triangular_upper", lambda: M.TriangularMatrix(L.T.copy(), lower=False), L.T),
        ("inverse_triangular", lambda: M.InverseTriangularMatrix(L.copy(), lower=True),
         np.linalg.inv(L)),
        ("tri_factored_pd", lambda: M.TriangularFactoredPositiveDefiniteMatrix(
            L.copy(), factor_is_lower=True), A),
        ("tri_factored_neg", lambda: M.TriangularFactoredDefiniteMatrix(
            L.copy(), sign=-1, factor_is_lower=True), -A),
        ("dense_pd", lambda: M.DensePositiveDefiniteMatrix(A.copy()), A),
        ("dense_square", lambda: M.DenseSquareMatrix(L.copy()), L),
        ("dense_symmetric", lambda: M.DenseSymmetricMatrix(A.copy()), A),
        ("softabs", lambda: M.SoftAbsRegularizedPositiveDefiniteMatrix(A.copy(), 1.0 / scale),
         mzoo.softabs_dense(A, 1.0 / scale)),
        ("block_diag_pd", lambda: M.PositiveDefiniteBlockDiagonalMatrix(
            [M.PositiveScaledIdentityMatrix(scale, 1)] * 2
            + [M.DensePositiveDefiniteMatrix(A.copy())]),
         np.block([[scale * np.eye(2), np.zeros((2, n))], [np.zeros((n, 2)), A]])),
    ]
    return out


def check_large(cfg, acc):
    n, scale, seed = cfg["n"], cfg["scale"], cfg["seed"]
    for name, fac, dense in large_builders(n, scale, seed):
        F = {"class": name, "observable": "log_abs_det", "tree": "large"}
        sign, want = np.linalg.slogdet(dense)
        for how in ("direct", "inv", "T", "scaled", "sqrt"):
            acc.count("evaluations")
            try:
                m = fac()
                if how == "direct":
                    got, ref = m.log_abs_det, want
                elif how == "inv":
                    got, ref = m.inv.log_abs_det, -want
                elif how == "T":
                    got, ref = m.T.log_abs_det, want
                elif how == "scaled":
                    got, ref = (2.0 * m).log_abs_det, want + dense.shape[0] * np.log(2.0)
                else:
                    if not offers(m, "sqrt") or m.sqrt.shape[0] != m.sqrt.shape[1]:
                        continue
                    got, ref = m.sqrt.log_abs_det, 0.5 * want
            except Exception as e:  # noqa: BLE001
                acc.violation(driver="large", config=cfg, fields={**F, "how": how,
                                                                  "what": "raises"},
                              kind="exception", observed=repr(e)[:200], expected=float(want))
                continue
            tol = 1e-9 * (1.0 + abs(ref)) + 1e-12 * dense.shape[0] * np.log(np.linalg.cond(dense)
                                                                           + 1.0)
            if not np.isfinite(got) or abs(got - ref) > tol:
                acc.violation(driver="large", config=cfg,
                              fields={**F, "how": how, "what": "value"}, kind="value_mismatch",
                              observed=float(got), expected=float(ref))
            else:
                acc.outcome(("large", name, how, n, scale))
    acc.count("programs_checked")


def check_config(cfg, acc):
    if cfg.get("mode") == "large":
        check_large(cfg, acc)
        return
    seed = cfg["seed"]
    if "program" in cfg:  # replay of a single program
        check_program(cfg["program"], seed, acc)
        return
    for rec in programs_of(cfg):
        status = check_program(rec, seed, acc)
        acc.count("programs_" + status)
        if status == "checked" and len(acc.samples) < 3 and rec[0] not in ("leaf",):
            acc.sample({"program": rec})


def run(tier, seed, acc):
    cfgs = configs(tier, seed)
    run_lattice(MOD, cfgs, acc, shards_per_worker=8)
    c = acc.counts
    cov = {
        "evaluations": c.get("evaluations", 0),
        "programs": c.get("programs_checked", 0),
        "distinct_nontrivial": len(acc.outcomes),
        "rule": "all expression trees up to the depth bound over every matrix class x constructor "
                "option x size 1..3 and the composite constructors; operators T, inv, sqrt, neg, "
                "scalar *, /, @; every observable of every tree compared with the same tree on "
                "dense arrays; plus log-determinants (direct, of the inverse, transpose, scalar "
                "multiple and square root) at sizes 1 / 60 / 400 x scales 1e-3 .. 1e6, where the "
                "determinant itself leaves the double range; "
                "distinct = distinct (result class, dense value) pairs",
        "exhaustive": True,
        "bounds": {"tier": tier, "chain_depth": 2 if tier == "quick" else 3,
                   "root_groups": len(cfgs),
                   "not_applicable_programs": c.get("programs_not_applicable", 0)},
    }
    return cov, ["dense NumPy/SciPy kernels (solve, slogdet, eigh, inv) are the reference",
                 "leaf parameters come from a fixed well-conditioned lattice shifted by VERIF_SEED"]


def replay(rec):
    return replay_lattice(MOD, rec)
