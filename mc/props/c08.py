"""C08 - momentum updates leave the Gaussian momentum law exactly invariant.

sample_momentum is linear in the normal draw: feeding basis vectors through a scripted generator
gives the columns of L; L L^T must equal the metric (projected for constrained systems).  The
correlated transition is likewise characterised as mom' = A mom + B z.
"""

from __future__ import annotations

import numpy as np

from mc import zoo
from mc.lattice import replay_lattice, run_lattice
from mc.oracles import maxerr
from mc.script_rng import BasisRng

MOD = "mc.props.c08"
COEFFS = (0.0, 0.3, 0.6, 1.0)


def configs(tier, seed):
    if tier == "quick":
        return zoo.system_configs(seed, tier, all_convs=False, derived_metrics=True)
    out = []
    for sd in (seed, seed + 3, seed + 5):  # three parameter variants of every lattice
        out += zoo.system_configs(sd, tier, all_convs=True, derived_metrics=True)
    return out


def target_cov(case, q):
    Md = case.metric_ref(q)
    if case.constraint is None:
        return Md
    J = case.constraint.jac(q)
    Mi = np.linalg.inv(Md)
    P = np.eye(case.d) - J.T @ np.linalg.solve(J @ Mi @ J.T, J @ Mi)
    return P @ Md @ P.T


def check_config(cfg, acc):
    from mici.transitions import CorrelatedMomentumTransition, IndependentMomentumTransition

    case = zoo.build_case(cfg)
    S = case.system
    d = case.d
    cls = type(S).__name__
    F = {"class": cls, "metric": cfg.get("metric", cfg.get("kind"))}

    def viol(kind, what, obs, exp, **kw):
        acc.violation(driver="lattice", config=cfg, fields={**F, "what": what}, kind=kind,
                      observed=obs, expected=exp, **kw)

    pts = zoo.states(d, cfg["seed"], 2)
    if case.constraint is not None:
        pts = pts[:1] + zoo.on_manifold_states(case, cfg["seed"], 2)[:1]
    for si, (q, p) in enumerate(pts):
        C = target_cov(case, q)
        cscale = 1.0 + np.max(np.abs(C))
        tol = 1e-10 * cscale * np.linalg.cond(case.metric_ref(q))
        # ---- sample_momentum columns
        acc.count("evaluations")
        try:
            cols = []
            for i in range(d):
                rng = BasisRng(np.eye(d)[i])
                m = S.sample_momentum(zoo.mk_state(q, None), rng)
                cols.append(np.array(m, dtype=float))
                if len(rng.calls) != 1:
                    viol("draws", "number_of_generator_calls", rng.calls, "one draw of pos.shape")
            L = np.stack(cols, 1)
            a = np.array([0.7, -1.3, 0.4])[:d]
            b = np.array([-0.2, 0.9, 1.1])[:d]
            ma = np.array(S.sample_momentum(zoo.mk_state(q, None), BasisRng(a)))
            mb = np.array(S.sample_momentum(zoo.mk_state(q, None), BasisRng(a + 2 * b)))
            if maxerr(ma, L @ a) > tol or maxerr(mb, L @ (a + 2 * b)) > tol:
                viol("linearity", "sample_momentum_not_linear", [ma, mb],
                     [L @ a, L @ (a + 2 * b)], state=si)
                continue
            if maxerr(L @ L.T, C) > tol:
                viol("covariance", "sample_momentum_covariance", L @ L.T, C, state=si)
                continue
            acc.outcome((cls, F["metric"], si, round(float(np.sum(L)), 9)))
        except Exception as e:  # noqa: BLE001
            viol("exception", "sample_momentum:" + type(e).__name__, repr(e)[:200], "momentum")
            continue
        # ---- order of first use: the Hamiltonian (metric inverse, log-determinant) is evaluated on
        # a brand-new system BEFORE its first momentum draw (a sampler resuming from states that
        # carry momenta does this)
        acc.count("evaluations")
        try:
            case3 = zoo.build_case(cfg)
            S3 = case3.system
            S3.h(zoo.mk_state(q, p))
            cols = [np.array(S3.sample_momentum(zoo.mk_state(q, None), BasisRng(np.eye(d)[i])),
                             dtype=float) for i in range(d)]
            L3 = np.stack(cols, 1)
            if maxerr(L3 @ L3.T, C) > tol:
                viol("covariance", "sample_momentum_covariance_after_hamiltonian_first",
                     L3 @ L3.T, C, state=si)
        except Exception as e:  # noqa: BLE001
            viol("exception", "h_then_sample_momentum:" + type(e).__name__, repr(e)[:200],
                 "momentum")
        # ---- a second system object of the same class (other parameters) refreshing the momentum
        # of a state (or a copy of it) that the first system has already worked on
        acc.count("evaluations")
        try:
            cfg2 = dict(cfg, seed=cfg["seed"] + 1)
            if cfg["family"] == "riemannian":
                cfg2["target"] = "logcosh" if cfg["target"] != "logcosh" else "quartic"
            case2 = zoo.build_case(cfg2)
            S2 = case2.system
            C2 = target_cov(case2, q)
            tol2 = 1e-10 * (1.0 + np.max(np.abs(C2))) * np.linalg.cond(case2.metric_ref(q))
            for how in ("same_state", "copy"):
                cols = []
                for i in range(d):
                    st = zoo.mk_state(q, None)
                    st.mom = S.sample_momentum(st, BasisRng(np.eye(d)[i]))
                    S.h(st)
                    st2 = st if how == "same_state" else st.copy()
                    cols.append(np.array(S2.sample_momentum(st2, BasisRng(np.eye(d)[i])),
                                         dtype=float))
                L2 = np.stack(cols, 1)
                if maxerr(L2 @ L2.T, C2) > tol2:
                    viol("covariance", "second_system_on_" + how + "_covariance", L2 @ L2.T, C2,
                         state=si)
                    break
        except Exception as e:  # noqa: BLE001
            viol("exception", "second_system:" + type(e).__name__, repr(e)[:200], "momentum")
        # ---- correlated transition
        p0 = p if case.constraint is None else case.constraint.project_mom(
            q, p, np.linalg.inv(case.metric_ref(q)))
        for c in COEFFS:
            acc.count("evaluations")
            try:
                tr = CorrelatedMomentumTransition(S, c)
                # B: mom = 0
                B = []
                for i in range(d):
                    st = zoo.mk_state(q, np.zeros(d))
                    rng = BasisRng(np.eye(d)[i])
                    out, stats = tr.sample(st, rng)
                    B.append(np.array(out.mom, dtype=float))
                    exp_calls = 0 if c == 0.0 else 1
                    if len(rng.calls) != exp_calls:
                        viol("draws", "correlated_number_of_generator_calls", rng.calls,
                             exp_calls, coeff=c)
                B = np.stack(B, 1)
                A = []
                for i in range(d):
                    st = zoo.mk_state(q, np.eye(d)[i].copy())
                    out, _ = tr.sample(st, BasisRng(np.zeros(d)))
                    A.append(np.array(out.mom, dtype=float))
                A = np.stack(A, 1)
                # joint linearity
                z = np.array([0.7, -1.3, 0.4])[:d]
                st = zoo.mk_state(q, p0.copy())
                out, _ = tr.sample(st, BasisRng(z))
                if c == 1.0:
                    want = L @ z
                else:
                    want = A @ p0 + B @ z
                if maxerr(out.mom, want) > tol * (1 + np.max(np.abs(p0))):
                    viol("linearity", "correlated_not_linear", out.mom, want, coeff=c, state=si)
                    continue
                if c == 1.0:
                    ind = IndependentMomentumTransition(S)
                    st2 = zoo.mk_state(q, p0.copy())
                    out2, _ = ind.sample(st2, BasisRng(z))
                    if not np.array_equal(out.mom, out2.mom):
                        viol("reduction", "coeff_one_differs_from_independent", out.mom,
                             out2.mom, state=si)
                    continue
                if c == 0.0:
                    if not np.array_equal(out.mom, p0):
                        viol("reduction", "coeff_zero_changes_momentum", out.mom, p0, state=si)
                    continue
                lhs = A @ C @ A.T + B @ B.T
                if maxerr(lhs, C) > tol:
                    viol("covariance", "correlated_update_covariance", lhs, C, coeff=c,
                         state=si)
                else:
                    acc.outcome((cls, F["metric"], si, c, round(float(np.sum(B)), 9)))
            except Exception as e:  # noqa: BLE001
                viol("exception", "correlated:" + type(e).__name__, repr(e)[:200], "momentum",
                     coeff=c)
        # the coefficient is a public attribute: changing it on an existing transition must give
        # the same update as a freshly constructed transition
        for c0, c1 in ((0.2, 0.9), (1.0, 0.5), (0.0, 0.6), (0.7, 1.0), (0.4, 0.0)):
            acc.count("evaluations")
            try:
                tr = CorrelatedMomentumTransition(S, c0)
                tr.sample(zoo.mk_state(q, p0.copy()), BasisRng(np.zeros(d)))
                tr.mom_resample_coeff = c1
                z = np.array([0.7, -1.3, 0.4])[:d]
                out, _ = tr.sample(zoo.mk_state(q, p0.copy()), BasisRng(z))
                fresh, _ = CorrelatedMomentumTransition(S, c1).sample(
                    zoo.mk_state(q, p0.copy()), BasisRng(z))
                if not np.array_equal(out.mom, fresh.mom):
                    viol("reduction", "coefficient_changed_after_construction", out.mom,
                         fresh.mom, coeffs=[c0, c1], state=si)
                    break
            except Exception as e:  # noqa: BLE001
                viol("exception", "correlated:" + type(e).__name__, repr(e)[:200], "momentum",
                     coeffs=[c0, c1])
                break
    acc.count("cases")
    if len(acc.samples) < 3:
        acc.sample({"config": cfg, "coeffs": COEFFS})


def run(tier, seed, acc):
    cfgs = configs(tier, seed)
    run_lattice(MOD, cfgs, acc)
    cov = {
        "evaluations": acc.counts.get("evaluations", 0),
        "distinct_nontrivial": len(acc.outcomes),
        "rule": "complete product of system class x metric type / Riemannian family x d=1..3 at "
                "lattice positions; momentum map characterised exactly by basis normal draws "
                "(linearity verified on two further vectors); refresh coefficients {0,0.3,0.6,1}; "
                "distinct = distinct (class, metric, state, coefficient, factor) tuples",
        "exhaustive": True,
        "bounds": {"configs": len(cfgs), "coeffs": list(COEFFS)},
    }
    return cov, ["the momentum maps are linear in the normal draw, so basis vectors determine "
                 "them completely (linearity itself is checked)",
                 "positions from the zoo lattice"]


def replay(rec):
    return replay_lattice(MOD, rec)
