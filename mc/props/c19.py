"""C19 - matrix objects behave as immutable values.

E2 search per zoo matrix: the state is the pattern of lazily populated slots, transitions are the
public accesses/operations; every order of first access up to the depth bound is covered.
Invariants in every state: parameter arrays bit-identical to snapshots, every observable equal to
that of a fresh twin, copies equal, in-place writes through any reachable array either raise or
change nothing; plus the equality/hash clauses over all pairs of zoo matrices.
"""

from __future__ import annotations

import copy
import pickle

import numpy as np

from mc import mzoo
from mc.explore_bfs import bfs

MOD = "mc.props.c19"
V = np.array([0.7, -1.3, 0.4, 1.9, -0.6])


def _mat_cls():
    from mici import matrices as M

    return M.Matrix


def reachable_arrays(obj, depth=3, _seen=None, path="m"):
    """All ndarrays reachable from a matrix through instance attributes / tuples / lists."""
    Matrix = _mat_cls()
    out = []
    _seen = _seen if _seen is not None else set()
    if id(obj) in _seen or depth < 0:
        return out
    _seen.add(id(obj))
    if isinstance(obj, np.ndarray):
        out.append((path, obj))
    elif isinstance(obj, Matrix):
        for k, v in sorted(obj.__dict__.items()):
            out += reachable_arrays(v, depth - 1, _seen, f"{path}.{k}")
    elif isinstance(obj, (tuple, list)):
        for i, v in enumerate(obj):
            out += reachable_arrays(v, depth, _seen, f"{path}[{i}]")
    return out


def public_arrays(obj, depth=2, path="m", _seen=None):
    """ndarrays reachable through public (non-underscore) attributes/properties, recursively
    through tuples and the public names of nested matrices."""
    Matrix = _mat_cls()
    _seen = _seen if _seen is not None else set()
    out = []
    if isinstance(obj, np.ndarray):
        return [(path, obj)]
    if isinstance(obj, (tuple, list)):
        for i, v in enumerate(obj):
            out += public_arrays(v, depth, f"{path}[{i}]", _seen)
        return out
    if not isinstance(obj, Matrix) or depth < 0 or id(obj) in _seen:
        return out
    _seen.add(id(obj))
    names = [n for n in dir(type(obj)) if not n.startswith("_")]
    names += [n for n in obj.__dict__ if not n.startswith("_")]
    for n in sorted(set(names)):
        if n in ("T", "transpose", "inv", "sqrt", "array", "eigvec", "capacitance_matrix",
                 "grad_log_abs_det"):
            continue  # lazily computed results, not parameters
        try:
            v = getattr(obj, n)
        except Exception:  # noqa: BLE001
            continue
        if callable(v):
            continue
        out += public_arrays(v, depth - 1, f"{path}.{n}", _seen)
    return out


def slot_pattern(obj, depth=2):
    Matrix = _mat_cls()
    if not isinstance(obj, Matrix) or depth < 0:
        return None
    items = []
    for k, v in sorted(obj.__dict__.items()):
        if not k.startswith("_"):
            continue
        if isinstance(v, Matrix):
            items.append((k, "M", slot_pattern(v, depth - 1) if v is not obj else "self"))
        else:
            items.append((k, v is not None))
    return (type(obj).__name__, tuple(items))


# ---- operations ------------------------------------------------------------------------------

def _ops():
    def gq(m):
        return m.grad_quadratic_form_inv(V[: m.shape[0]].copy())

    return {
        "T": lambda m: m.T, "inv": lambda m: m.inv, "sqrt": lambda m: m.sqrt,
        "eigval": lambda m: m.eigval, "eigvec": lambda m: m.eigvec,
        "array": lambda m: m.array, "diagonal": lambda m: m.diagonal,
        "log_abs_det": lambda m: m.log_abs_det, "hash": lambda m: hash(m),
        "factor": lambda m: m.factor, "lu_and_piv": lambda m: m.lu_and_piv,
        "capacitance_matrix": lambda m: m.capacitance_matrix,
        "grad_log_abs_det": lambda m: m.grad_log_abs_det, "grad_qfi": gq,
        "matvec": lambda m: m @ V[: m.shape[1]].copy(),
        "rmatvec": lambda m: V[: m.shape[0]].copy() @ m,
        "mul2": lambda m: m * 2, "rmul_neg": lambda m: -0.5 * m, "div2": lambda m: m / 2,
        "neg": lambda m: -m,
        "T.inv": lambda m: m.T.inv, "inv.T": lambda m: m.inv.T, "inv.array": lambda m: m.inv.array,
        "mul2.inv.array": lambda m: (m * 2).inv.array,
        "neg.log_abs_det": lambda m: (-m).log_abs_det,
        "eq_twin": None,  # filled per world
    }


OPS = _ops()
ATTR_NEEDED = {
    "inv": "inv", "sqrt": "sqrt", "eigval": "eigval", "eigvec": "eigvec",
    "log_abs_det": "log_abs_det", "factor": "factor", "lu_and_piv": "lu_and_piv",
    "capacitance_matrix": "capacitance_matrix", "grad_log_abs_det": "grad_log_abs_det",
    "grad_qfi": "grad_quadratic_form_inv", "T.inv": "inv", "inv.T": "inv", "inv.array": "inv",
    "mul2.inv.array": "inv", "neg.log_abs_det": "log_abs_det",
}


def op_names(m):
    Matrix = _mat_cls()
    names = []
    for k in OPS:
        if k == "eq_twin":
            names.append(k)
            continue
        need = ATTR_NEEDED.get(k)
        if need is not None and not hasattr(type(m), need):
            continue
        names.append(k)
    return names


def value_of(x):
    """Canonical comparable value of an observable."""
    Matrix = _mat_cls()
    if isinstance(x, Matrix):
        return ("matrix", type(x).__name__, np.array(x.array, dtype=float))
    if isinstance(x, tuple):
        return ("tuple", tuple(value_of(e) for e in x))
    if isinstance(x, np.ndarray):
        return ("array", np.array(x))
    if isinstance(x, (int, np.integer)) and not isinstance(x, bool):
        return ("int", int(x))
    return ("scalar", float(x)) if isinstance(x, (float, np.floating)) else ("obj", x)


def values_equal(a, b):
    if a[0] != b[0]:
        return False
    if a[0] == "matrix":
        return a[1] == b[1] and values_equal(("array", a[2]), ("array", b[2]))
    if a[0] == "tuple":
        return len(a[1]) == len(b[1]) and all(values_equal(x, y) for x, y in zip(a[1], b[1]))
    if a[0] == "array":
        x, y = a[1], b[1]
        if x.shape != y.shape:
            return False
        if x.dtype.kind in "iub":
            return bool(np.array_equal(x, y))
        return bool(np.allclose(x, y, rtol=1e-12, atol=1e-13, equal_nan=True))
    if a[0] == "scalar":
        return bool(np.isclose(a[1], b[1], rtol=1e-12, atol=1e-13, equal_nan=True))
    return a[1] == b[1]


def observe(m, names):
    """Evaluate observables in canonical order; each gives ('ok', value) or ('exc', type)."""
    out = {}
    for k in names:
        if k == "eq_twin":
            continue
        try:
            out[k] = ("ok", value_of(OPS[k](m)))
        except Exception as e:  # noqa: BLE001
            out[k] = ("exc", type(e).__name__)
    return out


def obs_equal(a, b):
    bad = []
    for k in a:
        x, y = a[k], b[k]
        if x[0] != y[0]:
            bad.append(k)
        elif x[0] == "exc":
            if x[1] != y[1]:
                bad.append(k)
        elif not values_equal(x[1], y[1]):
            bad.append(k)
    return bad


class World:
    pass


def make_build(rec, seed, acc):
    def build(hist):
        w = World()
        with mzoo.record_constructor_arrays() as supplied:
            w.m, w.dense = mzoo.build(rec, seed)
        # parameters: every array held right after construction (checked for bit-identity)
        w.params = [(p, a, a.copy()) for p, a in reachable_arrays(w.m)]
        held = {id(a): p for p, a, _ in w.params}
        # write candidates: arrays the caller supplied, and held arrays reachable through a
        # public attribute or property (recursively through public names of nested matrices)
        w.writable_candidates = {}
        # arrays the caller supplied, with the value they had when they were handed over
        w.supplied = list(zip(supplied.arrays, supplied.snapshots))
        for i, a in enumerate(supplied.arrays):
            w.writable_candidates[id(a)] = (f"supplied:{held.get(id(a), 'arg')}", a)
        w.held = held
        w.names = op_names(w.m)
        w.pattern = None
        for op in hist:
            try:
                if op == "eq_twin":
                    t, _ = mzoo.build(rec, seed)
                    w.m == t  # noqa: B015
                else:
                    OPS[op](w.m)
            except Exception:  # noqa: BLE001
                pass  # failing operations are judged by the observable comparison (twin)
        w.pattern = slot_pattern(w.m)
        return w

    return build


def make_invariant(rec, seed, acc):
    cfg = {"recipe": rec, "seed": seed}
    cls_name = [None]

    def viol(kind, hist, what, observed=None, expected=None):
        acc.violation(driver="bfs", config=cfg,
                      fields={"class": cls_name[0], "what": what}, kind=kind,
                      observed=observed, expected=expected, history=list(hist))

    def invariant(w, hist):
        m = w.m
        cls_name[0] = type(m).__name__
        acc.count("invariant_evaluations")
        # (a) arrays supplied by the caller still hold the values they were handed over with
        for arr, snap in w.supplied:
            if not np.array_equal(arr, snap, equal_nan=True):
                viol("parameter_changed", hist, "caller_supplied_array_modified", arr, snap)
                return
        # (a') parameter arrays unchanged
        for path, arr, snap in w.params:
            if not np.array_equal(arr, snap, equal_nan=True):
                viol("parameter_changed", hist, f"param:{path}", arr, snap)
                return
        # (b) observables equal those of a fresh twin (order independence, operands unchanged)
        twin, _ = mzoo.build(rec, seed)
        ot = observe(twin, w.names)
        om = observe(m, w.names)
        bad = obs_equal(om, ot)
        if bad:
            viol("order_dependence", hist, f"observable:{bad[0]}",
                 _short(om[bad[0]]), _short(ot[bad[0]]))
            return
        # parameters still unchanged after all observables were evaluated
        for path, arr, snap in w.params:
            if not np.array_equal(arr, snap, equal_nan=True):
                viol("parameter_changed", hist + ["<all observables>"], f"param:{path}", arr,
                     snap)
                return
        # (c) equality / hash with the twin, in this cache state
        try:
            if not (m == twin) or not (twin == m):
                viol("equality", hist, "twin_not_equal")
                return
            if hash(m) != hash(twin):
                viol("equality", hist, "twin_hash_differs", hash(m), hash(twin))
                return
        except Exception as e:  # noqa: BLE001
            viol("equality", hist, "twin_compare_raises", repr(e)[:200])
            return
        # (d) copies
        for cname, cfn in (("copy", copy.copy), ("deepcopy", copy.deepcopy),
                           ("pickle", lambda x: pickle.loads(pickle.dumps(x)))):
            try:
                c = cfn(m)
                if not (c == m):
                    viol("copy", hist, f"{cname}_not_equal")
                    return
                oc = observe(c, w.names)
                bad = obs_equal(oc, ot)
                if bad:
                    viol("copy", hist, f"{cname}_observable:{bad[0]}", _short(oc[bad[0]]),
                         _short(ot[bad[0]]))
                    return
            except Exception as e:  # noqa: BLE001
                viol("copy", hist, f"{cname}_raises", repr(e)[:200])
                return
        # (e) in-place writes through any *parameter* array (every array the matrix held right
        # after construction, which includes caller-supplied optional factors) either raise or
        # change nothing.  Lazily computed caches are not parameters and are not written to.
        # (public reachability is evaluated here, after all observables, so that it does not
        # disturb the cache state being explored)
        for p, a in public_arrays(m):
            if id(a) in w.held:
                w.writable_candidates.setdefault(id(a), (f"public:{p}", a))
        arrays = dict(w.writable_candidates.values())
        before = ot
        for path, arr in sorted(arrays.items()):
            if arr.size == 0:
                continue
            acc.count("write_attempts")
            try:
                saved = arr.copy()
                arr[...] = arr + (1 if arr.dtype.kind in "iu" else 0.37)
            except (ValueError, RuntimeError, TypeError):
                acc.count("writes_refused")
                continue
            after = observe(m, w.names)
            bad = obs_equal(after, before)
            try:
                arr[...] = saved
            except Exception:  # noqa: BLE001
                pass
            if bad:
                viol("writable_parameter", hist, f"write:{_generic(path)}",
                     f"observable {bad[0]} changed after in-place write through {path}",
                     "write refused or without effect")
                return
        acc.outcome((cls_name[0], str(w.pattern)))

    return invariant


def _generic(path):
    # drop indices so that groups do not depend on list positions
    import re
    return re.sub(r"\[\d+\]", "[]", path)


def _short(x):
    if x[0] == "exc":
        return f"raises {x[1]}"
    v = x[1]
    if v[0] == "matrix":
        return [v[1], v[2]]
    if v[0] in ("array", "scalar", "int", "obj"):
        return v[1]
    return str(v)[:200]


def explore_recipe(rec, seed, depth, acc):
    build = make_build(rec, seed, acc)
    inv = make_invariant(rec, seed, acc)

    def enabled(w, hist):
        return w.names

    def canon(w):
        return w.pattern

    res = bfs(build, enabled, canon, inv, depth)
    acc.count("states", res["states"])
    acc.count("transitions", res["transitions"])
    acc.notes["max_depth"] = max(acc.notes.get("max_depth", 0), res["max_depth"])
    acc.count("matrices")
    if res["states"] >= 3:
        acc.count("matrices_with_3plus_cache_states")
    if len(acc.samples) < 2:
        acc.sample({"recipe": rec, "states": res["states"], "transitions": res["transitions"],
                    "ops": build([]).names})


def equality_clause(n, seed, acc):
    """== implies equal arrays; equal parameters => == and equal hash, over all zoo pairs."""
    recs = mzoo.leaf_recipes(n) + mzoo.composite_recipes(n) + _variants(n)
    built = []
    for r in recs:
        try:
            built.append((r, *mzoo.build(r, seed)))
        except Exception:  # noqa: BLE001
            continue
    for i, (ra, a, da) in enumerate(built):
        for rb, b, db in built[i:]:
            acc.count("equality_pairs")
            try:
                eq = (a == b)
            except Exception as e:  # noqa: BLE001
                acc.violation(driver="pairs", config={"a": ra, "b": rb, "seed": seed, "n": n},
                              fields={"class": type(a).__name__, "what": "eq_raises"},
                              kind="equality", observed=repr(e)[:200], expected="bool")
                continue
            same_dense = da.shape == db.shape and np.allclose(da, db, rtol=1e-12, atol=1e-13)
            if eq and not same_dense:
                acc.violation(driver="pairs", config={"a": ra, "b": rb, "seed": seed, "n": n},
                              fields={"class": type(a).__name__, "what": "equal_but_arrays_differ"},
                              kind="equality", observed=[da, db], expected="== implies equal arrays")
            if eq and hash(a) != hash(b):
                acc.violation(driver="pairs", config={"a": ra, "b": rb, "seed": seed, "n": n},
                              fields={"class": type(a).__name__, "what": "equal_but_hash_differs"},
                              kind="equality", observed=[hash(a), hash(b)], expected="equal hashes")
    # equal parameters held in a different memory layout (caller passes a Fortran-ordered array;
    # the library's own transposes wrap transposed views) still mean == and equal hash
    from mici import matrices as M
    layout_pairs = []
    for r in mzoo.leaf_recipes(n):
        layout_pairs.append((f"layout:{r[1]}", lambda r=r: mzoo.build(["leaf", r[1], r[2]], seed)[0],
                             lambda r=r: mzoo.build(["leaf_f", r[1], r[2]], seed)[0]))
    Lt = mzoo.P_tri(n, seed, True)
    Rr = mzoo.P_rect(n, max(1, n - 1), seed)
    Qo = mzoo.P_orth(n, seed)
    layout_pairs += [
        ("layout:triangular.T", lambda: M.TriangularMatrix(Lt.copy(), lower=True).T,
         lambda: M.TriangularMatrix(Lt.T.copy(), lower=False)),
        ("layout:rectangular.T", lambda: M.DenseRectangularMatrix(Rr.copy()).T,
         lambda: M.DenseRectangularMatrix(Rr.T.copy())),
        ("layout:orthogonal.inv", lambda: M.OrthogonalMatrix(Qo.copy()).inv,
         lambda: M.OrthogonalMatrix(Qo.T.copy())),
    ]
    # parameters equal in value but not bytewise: -0.0 (produced by negating a matrix with
    # structural zeros) against +0.0
    Dz = mzoo.P_diag(n, seed, positive=False)
    layout_pairs += [
        ("negzero:triangular", lambda: -M.TriangularMatrix(Lt.copy(), lower=True),
         lambda: M.TriangularMatrix(-Lt, lower=True)),
        ("negzero:dense_square", lambda: -M.DenseSquareMatrix(np.tril(Lt)),
         lambda: M.DenseSquareMatrix(-np.tril(Lt) + 0.0)),
        ("negzero:diagonal", lambda: M.DiagonalMatrix(np.where(np.arange(n) == 0, -0.0, Dz)),
         lambda: M.DiagonalMatrix(np.where(np.arange(n) == 0, 0.0, Dz))),
    ]
    # the same numbers held as integers and as floats
    Ai = np.arange(1, n * n + 1).reshape(n, n) + 3 * np.eye(n, dtype=int)
    layout_pairs += [
        ("dtype:dense_square", lambda: M.DenseSquareMatrix(Ai.astype(np.int64)),
         lambda: M.DenseSquareMatrix(Ai.astype(np.float64))),
        ("dtype:diagonal", lambda: M.DiagonalMatrix(np.arange(1, n + 1)),
         lambda: M.DiagonalMatrix(np.arange(1.0, n + 1))),
        ("dtype:triangular", lambda: M.TriangularMatrix(np.tril(Ai).astype(np.int32)),
         lambda: M.TriangularMatrix(np.tril(Ai).astype(np.float64))),
    ]
    for label, fa, fb in layout_pairs:
        acc.count("equality_pairs")
        try:
            a, b = fa(), fb()
        except Exception:  # noqa: BLE001
            continue
        cfgp = {"pair": label, "seed": seed, "n": n}
        if type(a) is not type(b) or not np.array_equal(np.array(a.array), np.array(b.array)):
            continue  # not the same value after all (harness construction, not judged)
        # equality does not depend on whether the (lazily cached) hashes were computed first
        eq_before = bool(a == b)
        ha, hb = hash(a), hash(b)
        eq_after = bool(a == b) and bool(b == a)
        if eq_before != eq_after:
            acc.violation(driver="pairs", config=cfgp,
                          fields={"class": type(a).__name__,
                                  "what": "equality_depends_on_hash_having_been_computed"},
                          kind="equality", observed=[eq_before, eq_after],
                          expected="same answer before and after hashing")
            continue
        if not (a == b) or hash(a) != hash(b):
            acc.violation(driver="pairs", config=cfgp,
                          fields={"class": type(a).__name__,
                                  "what": "equal_parameters_other_layout_not_equal_or_hash"},
                          kind="equality", observed=[bool(a == b), hash(a) == hash(b)],
                          expected="== and equal hash")
    # containers supplied by the caller (lists of factors / blocks): editing the caller's list
    # afterwards must not change the matrix
    Bc, Tc = mzoo.P_spd(n, seed), mzoo.P_tri(n, seed, True)
    for label, cls, items in (
            ("product_from_list", M.MatrixProduct,
             lambda: [M.DenseSquareMatrix(Bc.copy()), M.TriangularMatrix(Tc.copy())]),
            ("square_product_from_list", M.SquareMatrixProduct,
             lambda: [M.DenseSquareMatrix(Bc.copy()), M.TriangularMatrix(Tc.copy())]),
            ("block_diag_from_list", M.SquareBlockDiagonalMatrix,
             lambda: [M.DenseSquareMatrix(Bc.copy()), M.TriangularMatrix(Tc.copy())])):
        acc.count("equality_pairs")
        try:
            lst = items()
            m = cls(lst)
            before = np.array(m.array)
            v = np.arange(1.0, m.shape[1] + 1)
            mv = np.array(m @ v)
            shape = tuple(m.shape)
            lst[0] = M.DenseSquareMatrix(2.0 * Bc)
            lst.append(M.IdentityMatrix(n))
            same = tuple(m.shape) == shape and np.array_equal(np.array(m.array), before) \
                and np.array_equal(np.array(m @ v), mv)
        except Exception as e:  # noqa: BLE001
            same = False
            before = repr(e)[:100]
        if not same:
            acc.violation(driver="pairs", config={"pair": label, "seed": seed, "n": n},
                          fields={"class": cls.__name__,
                                  "what": "matrix_changes_when_callers_list_is_edited"},
                          kind="parameter_changed", observed="changed",
                          expected="independent of later edits of the list passed in")
    for label, fa, fb in direct_pairs(n, seed):
        acc.count("equality_pairs")
        a, b = fa(), fb()
        a2 = fa()
        da, db = np.array(a.array), np.array(b.array)
        cfgp = {"pair": label, "seed": seed, "n": n}
        if not (a == a2) or hash(a) != hash(a2):
            acc.violation(driver="pairs", config=cfgp,
                          fields={"class": type(a).__name__, "what": "equal_parameters_not_equal"},
                          kind="equality", observed=label, expected="== and equal hash")
        if (a == b) and not np.allclose(da, db, rtol=1e-12, atol=1e-13):
            acc.violation(driver="pairs", config=cfgp,
                          fields={"class": type(a).__name__, "what": "equal_but_arrays_differ"},
                          kind="equality", observed=[da, db], expected="== implies equal arrays")


def direct_pairs(n, seed):
    """Pairs of matrices of one class built from identical arrays, differing in one option."""
    from mici import matrices as M

    U = 0.3 * mzoo.P_rect(n, 1, seed)
    Vt = 0.3 * mzoo.P_rect(1, n, seed, 1)
    d = mzoo.P_diag(n, seed)
    B = mzoo.P_spd(n, seed)
    T = mzoo.P_tri(n, seed, True)
    out = []
    for sa, sb in ((1, -1),):
        out.append(("low_rank_pd sign", lambda s=sa: M.PositiveDefiniteLowRankUpdateMatrix(
            U.copy(), M.PositiveDiagonalMatrix(d.copy()), sign=s),
            lambda s=sb: M.PositiveDefiniteLowRankUpdateMatrix(
            U.copy(), M.PositiveDiagonalMatrix(d.copy()), sign=s)))
        out.append(("low_rank_symmetric sign", lambda s=sa: M.SymmetricLowRankUpdateMatrix(
            U.copy(), M.DenseSymmetricMatrix(B.copy()), sign=s),
            lambda s=sb: M.SymmetricLowRankUpdateMatrix(
            U.copy(), M.DenseSymmetricMatrix(B.copy()), sign=s)))
        out.append(("low_rank_square sign", lambda s=sa: M.SquareLowRankUpdateMatrix(
            U.copy(), Vt.copy(), M.DenseSquareMatrix(B.copy()), sign=s),
            lambda s=sb: M.SquareLowRankUpdateMatrix(
            U.copy(), Vt.copy(), M.DenseSquareMatrix(B.copy()), sign=s)))
    out.append(("tri_factored sign", lambda: M.TriangularFactoredDefiniteMatrix(
        T.copy(), sign=1, factor_is_lower=True), lambda: M.TriangularFactoredDefiniteMatrix(
        T.copy(), sign=-1, factor_is_lower=True)))
    out.append(("triangular lower/upper", lambda: M.TriangularMatrix(B.copy(), lower=True),
                lambda: M.TriangularMatrix(B.copy(), lower=False)))
    out.append(("inverse_triangular lower/upper",
                lambda: M.InverseTriangularMatrix(B.copy(), lower=True),
                lambda: M.InverseTriangularMatrix(B.copy(), lower=False)))
    out.append(("softabs coeff", lambda: M.SoftAbsRegularizedPositiveDefiniteMatrix(B.copy(), 1.0),
                lambda: M.SoftAbsRegularizedPositiveDefiniteMatrix(B.copy(), 2.0)))
    out.append(("scaled_orthogonal scalar",
                lambda: M.ScaledOrthogonalMatrix(2.0, mzoo.P_orth(n, seed)),
                lambda: M.ScaledOrthogonalMatrix(-2.0, mzoo.P_orth(n, seed))))
    out.append(("scaled_identity scalar", lambda: M.ScaledIdentityMatrix(2.0, n),
                lambda: M.ScaledIdentityMatrix(-2.0, n)))
    out.append(("dense_definite posdef flag", lambda: M.DenseDefiniteMatrix(B.copy(), is_posdef=True),
                lambda: M.DenseDefiniteMatrix(-B, is_posdef=False)))
    out.append(("dense_square lu_transposed", lambda: M.DenseSquareMatrix(T.copy()),
                lambda: M.DenseSquareMatrix(T.T.copy())))
    out.append(("block order", lambda: M.SquareBlockDiagonalMatrix(
        [M.DiagonalMatrix(d[:1].copy()), M.DenseSquareMatrix(B.copy())]),
        lambda: M.SquareBlockDiagonalMatrix(
        [M.DenseSquareMatrix(B.copy()), M.DiagonalMatrix(d[:1].copy())])))
    return out


def _variants(n):
    """Near twins: same class, one option changed."""
    out = []
    if n >= 2:
        for base in (["leaf", "pos_diagonal", n], ["leaf", "dense_pd", n]):
            for inner in (None, ["leaf", "pos_diagonal", 1]):
                for sign in (1, -1):
                    out.append(["low_rank_pd", sign, base, 1, inner, False, True])
                    out.append(["low_rank_symmetric", sign, base, 1, inner, False, True])
                    out.append(["low_rank_square", sign, base, 1, inner, False, True])
    return out


def check_config(cfg, acc):
    if cfg["mode"] == "bfs":
        explore_recipe(cfg["recipe"], cfg["seed"], cfg["depth"], acc)
    else:
        equality_clause(cfg["n"], cfg["seed"], acc)


def configs(tier, seed):
    depth = 2 if tier == "quick" else 3
    cfgs = []
    for n in (1, 2, 3):
        for r in mzoo.leaf_recipes(n) + mzoo.composite_recipes(n):
            cfgs.append({"mode": "bfs", "recipe": r, "seed": seed, "depth": depth})
        if n >= 2:
            # the same leaves with their 2-D parameter arrays supplied in Fortran order
            for r in mzoo.leaf_recipes(n):
                cfgs.append({"mode": "bfs", "recipe": ["leaf_f", r[1], r[2]], "seed": seed,
                             "depth": 0})
        cfgs.append({"mode": "pairs", "n": n, "seed": seed})
    return cfgs


def run(tier, seed, acc):
    from mc.lattice import run_lattice

    cfgs = configs(tier, seed)
    run_lattice(MOD, cfgs, acc, shards_per_worker=8)
    c = acc.counts
    cov = {
        "states": c.get("states", 0),
        "transitions": c.get("transitions", 0),
        "traces_validated_against_impl": c.get("transitions", 0),
        "evaluations": c.get("invariant_evaluations", 0),
        "distinct_nontrivial": len(acc.outcomes),
        "rule": "per zoo matrix (every class x option x size 1..3 + composites) BFS over public "
                "accesses; state = pattern of populated lazy slots (recursive); invariants in "
                "every state: parameters bit-identical, observables equal a fresh twin, copies "
                "equal, in-place writes refused or without effect; plus == / hash clauses over all "
                "pairs; non-trivial = distinct (class, cache-state) pairs reached",
        "exhaustive": True,
        "bounds": {"depth": 2 if tier == "quick" else 3, "matrices": c.get("matrices", 0),
                   "equality_pairs": c.get("equality_pairs", 0),
                   "write_attempts": c.get("write_attempts", 0)},
        "caps_hit": [],
    }
    return cov, ["explored object is the real matrix implementation; a state is rebuilt from its "
                 "history on fresh objects",
                 "states with equal populated-slot patterns are merged: library behaviour depends "
                 "on caches only through None tests, and cached values are verified in every "
                 "state to equal a fresh twin's"]


def replay(rec):
    from mc.runner import Acc

    acc = Acc()
    cfg = rec["config"]
    if rec["driver"] == "bfs":
        build = make_build(cfg["recipe"], cfg["seed"], acc)
        inv = make_invariant(cfg["recipe"], cfg["seed"], acc)
        hist = [h for h in rec.get("history", []) if h != "<all observables>"]
        w = build(hist)
        inv(w, hist)
    else:
        equality_clause(cfg["n"], cfg["seed"], acc)
    want = rec["fields"]
    for recs in acc.viol.values():
        if recs[0]["fields"] == want:
            return True, {"history": rec.get("history"), "observed": recs[0]["observed"],
                          "expected": recs[0]["expected"], "fields": want}
    return False, {"violations_seen": [r[0]["fields"] for r in acc.viol.values()]}
