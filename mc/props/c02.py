"""C02 - every integrator step is time-reversible or fails loudly; the input is never modified.

Product: integrator configuration x compatible system x metric x state x step size x n.  Run n
steps, negate dir, run n steps.  Environment deviation (E1, bound 1): at the k-th projection-solver
call of the round trip the solver returns another genuine root (far intersection with the sphere);
the round trip must raise an IntegratorError or still return to the start.
"""

from __future__ import annotations

import numpy as np

from mc import izoo, zoo
from mc.lattice import replay_lattice, run_lattice

MOD = "mc.props.c02"
EPS = (0.025, 0.1, 0.2, 0.5, 1.0)


def pairings(tier, seed):
    """(system cfg, integrator recipe) pairs."""
    quick = tier == "quick"
    out = []
    sysc = zoo.system_configs(seed, tier, all_convs=False, dims=(2,) if quick else (1, 2, 3))
    if quick:  # manifolds of dimension 2 need d = 3
        sysc += [c for c in zoo.system_configs(seed, tier, all_convs=False, dims=(3,),
                                               families=("constrained", "gaussian_constrained"))
                 if c["constraint"] in ("ellipsoid", "sphere")
                 and c["metric"] in ("dense_pd", "identity")]
    # a legal metric of extreme scale (heavy masses): the Gram matrix of the constraints is then
    # of order 1e-8, which exposes absolute regularisers and absolute tolerances
    sysc += [c for c in zoo.system_configs(seed, tier, all_convs=False, dims=(2, 3),
                                           families=("constrained", "gaussian_constrained"),
                                           derived_metrics=True)
             if c["metric"] == "derived_heavy_identity"
             and (not quick or c["constraint"] in ("ellipsoid", "sphere"))]
    tract = izoo.tractable_recipes(tier)
    for sc in sysc:
        if quick and sc["target"] != "quartic":
            continue
        fam = sc["family"]
        if fam in ("euclidean", "gaussian"):
            rich = sc["metric"] in ("identity", "dense_pd", "none")
            recs = tract if rich else [["leapfrog"], ["bcss2"], ["symcomp", [0.2, 0.4], False]]
            out += [(sc, r) for r in recs]
            if sc["metric"] in ("dense_pd", "pos_diagonal", "low_rank_downdate", "none"):
                for tight in (False, True):
                    for s in izoo.FP_SOLVERS:
                        out.append((sc, ["implicit_midpoint", s, tight]))
                        if fam == "euclidean":
                            out.append((sc, ["implicit_leapfrog", s, tight]))
        elif fam == "riemannian":
            if sc["softabs_coeff"] not in (1.0,) and quick:
                continue
            for tight in (False, True):
                for r in izoo.implicit_recipes(tight):
                    out.append((sc, r))
            if sc["kind"] == "scalar" and sc["conv"] == "plain":
                # strongly curved metric: implicit equations with several solutions
                for kind2 in ("scalar_strong", "diagonal_strong", "diagonal_strong9"):
                    for tn in ("quartic", "gauss"):
                        sc2 = dict(sc, kind=kind2, target=tn)
                        for tight in (False, True):
                            for r in izoo.implicit_recipes(tight):
                                out.append((sc2, r))
        else:
            if quick and sc["metric"] not in ("identity", "dense_pd", "none",
                                              "low_rank_downdate", "derived_heavy_identity"):
                continue
            for tight in (False, True):
                for r in izoo.constrained_recipes(tight, (1, 2, 3)):
                    out.append((sc, r))
    return out


def configs(tier, seed):
    cfgs = []
    for sc, r in pairings(tier, seed):
        cfgs.append({"mode": "roundtrip", "system": sc, "integrator": r})
    # multi-scale manifold with a huge free coordinate
    for solver in izoo.PROJ_SOLVERS:
        for n_inner in (1, 2):
            cfgs.append({"mode": "wavy",
                         "integrator": ["constrained_leapfrog", solver, n_inner, False]})
    # wrong-root deviations: constrained systems on the sphere
    for d in (2, 3):
        for metric in ("identity", "dense_pd"):
            for gaussian in (False, True):
                for solver in izoo.PROJ_SOLVERS:
                    for n_inner in (1, 2):
                        sc = {"family": "gaussian_constrained" if gaussian else "constrained",
                              "d": d, "target": "quartic", "metric": metric,
                              "constraint": "sphere", "hausdorff": True, "seed": seed}
                        cfgs.append({"mode": "wrong_root", "system": sc,
                                     "integrator": ["constrained_leapfrog", solver, n_inner,
                                                    False]})
    return cfgs


def roundtrip(integ, q, p, direction, n, on_step=None, zlimit=1e3):
    """Returns (status, info). status in ok / refused / foreign."""
    from mici.errors import IntegratorError

    st0 = zoo.mk_state(q, p, direction)
    x = st0
    zmax = 0.0
    try:
        for leg in (0, 1):
            for _ in range(n):
                snap = (np.array(x.pos), np.array(x.mom), int(x.dir))
                y = integ.step(x)
                if not (np.array_equal(x.pos, snap[0]) and np.array_equal(x.mom, snap[1])
                        and int(x.dir) == snap[2]):
                    return "input_modified", {"before": snap[:2], "after": [x.pos, x.mom]}
                if y is x:
                    return "input_modified", {"reason": "step returned its input object"}
                x = y
                zmax = max(zmax, float(np.max(np.abs(x.pos))), float(np.max(np.abs(x.mom))))
                if not np.isfinite(zmax) or zmax > zlimit:
                    return "diverged", {}
            if leg == 0:
                x.dir = -x.dir
    except IntegratorError as e:
        return "refused", {"error": type(e).__name__}
    except Exception as e:  # noqa: BLE001
        return "foreign", {"error": type(e).__name__, "msg": repr(e)[:200]}
    err = max(float(np.max(np.abs(x.pos - q))), float(np.max(np.abs(x.mom - p))))
    return "ok", {"err": err, "zmax": zmax}


def check_roundtrip(cfg, acc):
    case = zoo.build_case(cfg["system"])
    rec = cfg["integrator"]
    fam = izoo.family_of(rec)
    F = {"integrator": rec[0], "class": type(case.system).__name__,
         "solver": rec[1] if fam != "tractable" else None,
         "metric": cfg["system"].get("metric", cfg["system"].get("kind"))}
    seed = cfg["system"]["seed"]
    sts = zoo.on_manifold_states(case, seed, 2) if case.constraint is not None \
        else zoo.states(case.d, seed, 2)
    strong = str(cfg["system"].get("kind", "")).endswith(("strong", "strong9"))
    if strong:
        dd = case.d
        sts = sts + [(np.array([0.1, -1.0, 0.3])[:dd], np.array([1.5, 0.5, -0.7])[:dd]),
                     (np.array([-0.05, 0.5, 0.2])[:dd], np.array([-2.0, -1.0, 0.5])[:dd]),
                     (np.array([0.02, 0.5, -0.4])[:dd], np.array([2.0, 0.5, 1.0])[:dd])]
    tight = bool(rec[2]) if fam in ("implicit_leapfrog", "implicit_midpoint") else (
        bool(rec[3]) if fam == "constrained" else True)
    for eps in EPS:
        try:
            integ = izoo.build_integrator(rec, case.system, eps)
        except Exception:  # noqa: BLE001
            acc.count("incompatible_pairs")
            return
        for si, (q, p) in enumerate(sts):
            for direction in (1, -1):
                for n in (1, 2, 3):
                    acc.count("evaluations")
                    status, info = roundtrip(integ, q, p, direction, n)
                    acc.count("roundtrip_" + status)
                    if status == "refused":
                        acc.count("refused_" + info["error"])
                    if eps <= 0.2:
                        acc.count("small_eps_total")
                        if status == "ok":
                            acc.count("small_eps_ok")
                    ctx = dict(eps=eps, state=si, dir=direction, n=n)
                    if status == "foreign":
                        acc.violation(driver="roundtrip", config=cfg,
                                      fields={**F, "what": "foreign_exception:" + info["error"]},
                                      kind="foreign_exception", observed=info["msg"],
                                      expected="IntegratorError or a state", **ctx)
                    elif status == "input_modified":
                        acc.violation(driver="roundtrip", config=cfg,
                                      fields={**F, "what": "input_state_modified"},
                                      kind="input_modified", observed=info,
                                      expected="input unchanged", **ctx)
                    elif status == "ok":
                        zs = 1.0 + info["zmax"]
                        if fam == "tractable":
                            tol = 1e-9 * zs * zs
                        elif tight:
                            tol = 1e-7 * zs * n
                        else:
                            tol = 1e-5 * zs * n
                        if info["err"] > tol:
                            acc.violation(driver="roundtrip", config=cfg,
                                          fields={**F, "what": "not_reversible"},
                                          kind="not_reversible", observed=info["err"],
                                          expected=f"<= {tol:.1e}", **ctx)
                        else:
                            acc.outcome((F["integrator"], F["class"], F["solver"], eps, n,
                                         si, direction))
    acc.count("cases")


# ---------------------------------------------------------------------------------------------
# multi-scale manifold: many constraint roots on a small length scale, one huge free coordinate
# ---------------------------------------------------------------------------------------------

WAVY_S = 1e-3
WAVY_BIG = 1e7


def wavy_system():
    """q = (x, y, z): constraint y = s sin(3 x / s) (period ~2e-3, infinitely many roots along
    any projection direction), z free and of magnitude 1e7."""
    from mici import systems as S
    s_ = WAVY_S

    def c(q):
        return np.array([q[1] - s_ * np.sin(3 * q[0] / s_)])

    def jac(q):
        return np.array([[-3 * np.cos(3 * q[0] / s_), 1.0, 0.0]])

    def nld(q):
        return 0.5 * (q[0] ** 2 + q[1] ** 2 + (q[2] - WAVY_BIG) ** 2)

    def grad(q):
        return np.array([q[0], q[1], q[2] - WAVY_BIG])

    return S.DenseConstrainedEuclideanMetricSystem(
        nld, c, grad_neg_log_dens=grad, jacob_constr=jac, dens_wrt_hausdorff=True), c, jac


def check_wavy(cfg, acc):
    system, c, jac = wavy_system()
    rec = cfg["integrator"]
    F = {"integrator": rec[0], "class": type(system).__name__, "solver": rec[1],
         "metric": "identity"}
    xs = [1.3447e-3 * k for k in (-2.0, -0.7, 0.3, 1.0, 1.9)]
    for eps in (0.0005, 0.002, 0.01, 0.05):
        integ = izoo.build_integrator(rec, system, eps)
        for si, x in enumerate(xs):
            q = np.array([x, WAVY_S * np.sin(3 * x / WAVY_S), WAVY_BIG + 0.25])
            J = jac(q)[0]
            for pi, praw in enumerate((np.array([1.0, 0.3, -0.5]), np.array([-0.6, 1.0, 0.8]))):
                p = praw - J * (J @ praw) / (J @ J)
                for direction in (1, -1):
                    for n in (1, 2, 3):
                        acc.count("evaluations")
                        status, info = roundtrip(integ, q, p, direction, n, zlimit=1e9)
                        acc.count("wavy_" + status)
                        ctx = dict(eps=eps, state=si, mom=pi, dir=direction, n=n)
                        if status == "foreign":
                            acc.violation(driver="wavy", config=cfg,
                                          fields={**F, "what": "foreign_exception:" + info["error"]},
                                          kind="foreign_exception", observed=info["msg"],
                                          expected="IntegratorError or a state", **ctx)
                        elif status == "input_modified":
                            acc.violation(driver="wavy", config=cfg,
                                          fields={**F, "what": "input_state_modified"},
                                          kind="input_modified", observed=info,
                                          expected="input unchanged", **ctx)
                        elif status == "ok":
                            # absolute tolerance 20x below the length scale of the manifold; errors of the
                            # loose solver tolerances (1e-8) are amplified by the curvature 9e3
                            # (1e-3); rounding of the 1e7 coordinate is ~2e-9 per operation
                            if info["err"] > 5e-5:
                                acc.violation(driver="wavy", config=cfg,
                                              fields={**F, "what": "not_reversible"},
                                              kind="not_reversible", observed=info["err"],
                                              expected="<= 5e-5 (manifold length scale 1e-3)",
                                              **ctx)
                            else:
                                acc.outcome(("wavy", rec[1], rec[2], eps, n, si, pi, direction))
    acc.count("cases")


# ---------------------------------------------------------------------------------------------
# wrong-root deviations
# ---------------------------------------------------------------------------------------------


def make_wrong_root_solver(real_solver, k_target, counter, con):
    """Projection solver that, at its k-th call, returns the *far* intersection with the sphere
    (a genuine root of the constraint equation with the Lagrange-multiplier form)."""

    def solver(state, state_prev, time_step, system, **kw):
        k = counter["k"]
        counter["k"] += 1
        if k != k_target:
            return real_solver(state, state_prev, time_step, system, **kw)
        Jp = np.asarray(system.jacob_constr(state_prev))  # (1, d)
        dpos, dmom = system.dh2_flow_dmom(state_prev, abs(time_step))
        w = np.asarray(dpos @ Jp[0])  # direction of position correction per unit multiplier
        x = np.array(state.pos, dtype=float)
        # |x - lam w|^2 = r2
        a = w @ w
        b = -2 * x @ w
        c = x @ x - con.r2
        disc = b * b - 4 * a * c
        if disc <= 0:
            counter["no_second_root"] = True
            return real_solver(state, state_prev, time_step, system, **kw)
        roots = [(-b + np.sqrt(disc)) / (2 * a), (-b - np.sqrt(disc)) / (2 * a)]
        lam = max(roots, key=abs)  # far root
        mu = Jp[0] * lam
        state.pos = x - np.asarray(dpos @ mu)
        state.mom = np.array(state.mom, dtype=float) - np.sign(time_step) * np.asarray(dmom @ mu)
        counter["deviated"] = True
        return state

    return solver


def check_wrong_root(cfg, acc):
    from mici import solvers as S

    case = zoo.build_case(cfg["system"])
    rec = cfg["integrator"]
    con = case.constraint
    real = {"newton": S.solve_projection_onto_manifold_newton,
            "quasi_newton": S.solve_projection_onto_manifold_quasi_newton,
            "newton_line_search": S.solve_projection_onto_manifold_newton_with_line_search}[
        rec[1]]
    F = {"integrator": rec[0], "class": type(case.system).__name__, "solver": rec[1]}
    sts = zoo.on_manifold_states(case, cfg["system"]["seed"], 2)
    for eps in (0.1, 0.3):
        for si, (q, p) in enumerate(sts):
            for n in (1, 2):
                # count solver calls of the undisturbed round trip
                counter = {"k": 0}
                integ = izoo.build_integrator(rec, case.system, eps)
                integ.projection_solver = make_wrong_root_solver(real, -1, counter, con)
                status0, info0 = roundtrip(integ, q, p, 1, n)
                ncalls = counter["k"]
                if status0 != "ok":
                    acc.count("wrong_root_base_refused")
                    continue
                for k in range(ncalls):
                    counter = {"k": 0}
                    integ = izoo.build_integrator(rec, case.system, eps)
                    integ.projection_solver = make_wrong_root_solver(real, k, counter, con)
                    acc.count("evaluations")
                    status, info = roundtrip(integ, q, p, 1, n)
                    if not counter.get("deviated"):
                        acc.count("wrong_root_not_applicable")
                        continue
                    acc.count("wrong_root_" + status)
                    ctx = dict(eps=eps, state=si, n=n, k=k)
                    if status == "foreign":
                        acc.violation(driver="wrong_root", config=cfg,
                                      fields={**F, "what": "foreign_exception:" + info["error"]},
                                      kind="foreign_exception", observed=info["msg"],
                                      expected="IntegratorError or a state", **ctx)
                    elif status == "ok" and info["err"] > 1e-5 * (1 + info["zmax"]) * n:
                        acc.violation(driver="wrong_root", config=cfg,
                                      fields={**F, "what": "silently_elsewhere"},
                                      kind="not_reversible", observed=info["err"],
                                      expected="IntegratorError or return to start", **ctx)
                    else:
                        acc.outcome(("wrong_root", F["solver"], status, eps, n, k, si))
    acc.count("cases")


def check_config(cfg, acc):
    if cfg["mode"] == "roundtrip":
        check_roundtrip(cfg, acc)
    elif cfg["mode"] == "wavy":
        check_wavy(cfg, acc)
    else:
        check_wrong_root(cfg, acc)
    if len(acc.samples) < 3:
        acc.sample(cfg)


def run(tier, seed, acc):
    from mc.runner import HarnessError

    cfgs = configs(tier, seed)
    run_lattice(MOD, cfgs, acc, shards_per_worker=8)
    c = acc.counts
    frac = c.get("small_eps_ok", 0) / max(1, c.get("small_eps_total", 1))
    if not acc.viol and (frac < 0.6):
        raise HarnessError(f"C02 non-vacuity floor missed: only {frac:.2f} of round trips with "
                           f"|eps| <= 0.2 completed ({c})")
    cov = {
        "evaluations": c.get("evaluations", 0),
        "distinct_nontrivial": len(acc.outcomes),
        "rule": "integrator configuration (explicit compositions, implicit x fixed-point solver, "
                "constrained x projection solver x inner steps, default and tightened "
                "tolerances) x compatible system x metric x 2 states x both directions x eps in "
                f"{list(EPS)} x n in 1..3; plus solver deviations: at every projection-solver "
                "call index the far root of the sphere constraint is returned; non-trivial = "
                "distinct completed round trips / deviation outcomes",
        "exhaustive": True,
        "bounds": {"configs": len(cfgs), "eps": list(EPS),
                   "fraction_small_eps_completed": round(frac, 3),
                   "refused": c.get("roundtrip_refused", 0),
                   "wrong_root_refused": c.get("wrong_root_refused", 0),
                   "wrong_root_ok": c.get("wrong_root_ok", 0)},
    }
    return cov, ["round trips that raise an IntegratorError are allowed by the property and "
                 "counted, not judged",
                 "tolerances: 1e-9 (explicit), 1e-7 n (tight solver tolerances), 1e-5 n "
                 "(default tolerances), scaled by the largest state magnitude on the path"]


def replay(rec):
    return replay_lattice(MOD, rec)
