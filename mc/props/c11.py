"""C11 - differentiable matrices report the true parameter gradients.

Every DifferentiableMatrix class x option x size at a parameter lattice (incl. repeated
eigenvalues); grad_log_abs_det and grad_quadratic_form_inv(v) against central differences of
log|det dense(theta)| and v' dense(theta)^-1 v over exactly the free entries of the parameter.
"""

from __future__ import annotations

import numpy as np

from mc import mzoo
from mc.lattice import replay_lattice, run_lattice

MOD = "mc.props.c11"
H = 1e-5


def _sym(n, seed, variant):
    if variant == "repeated_all":
        return 1.5 * np.eye(n)
    if variant == "repeated_pair":
        S = np.diag(np.array([1.0, 1.0, 2.0, 3.0])[:n])
        return S
    if variant == "negative":
        Q = mzoo.P_orth(n, seed + 1)
        w = np.array([-4.0, -0.5, -1.25, -2.0])[:n]
        return (Q * w) @ Q.T
    if variant == "repeated_rotated":
        Q = mzoo.P_orth(n, seed)
        w = np.array([0.8, 0.8, -1.7, 2.0])[:n]
        return (Q * w) @ Q.T
    return mzoo.P_sym(n, seed)


# Histories: operations applied to a matrix (and, for derived kinds, to the matrix it is derived
# from) BEFORE the gradients are requested - lazily cached factors must not change the gradients.
WARMS = ((), ("log_abs_det",), ("inv",), ("sqrt",), ("eigval",), ("T",), ("array",),
         ("grad_log_abs_det",), ("grad_quadratic_form_inv",),
         ("inv", "log_abs_det", "sqrt", "eigval", "grad_log_abs_det", "grad_quadratic_form_inv"))
_BASE_WARM = [()]


def apply_warm(m, warm):
    for op in warm:
        try:
            if op == "grad_quadratic_form_inv":
                m.grad_quadratic_form_inv(np.array([0.3, 0.9, -0.4, 1.2])[: m.shape[0]])
            elif op == "inv":
                m.inv @ np.ones(m.shape[0])
            elif op == "sqrt":
                m.sqrt @ np.ones(m.sqrt.shape[1])
            else:
                getattr(m, op)
        except Exception:  # noqa: BLE001, S110
            pass  # not every class offers every property
    return m


def _warm_base(m):
    return apply_warm(m, _BASE_WARM[0])


def build_param_case(cfg):
    """Returns (theta0, make(theta)->Matrix, dense(theta)->ndarray, free_index_list,
    structure) where theta is an ndarray (or scalar array) parameter."""
    from mici import matrices as M

    k, n, seed = cfg["kind"], cfg["n"], cfg["seed"]
    if k in ("scaled_identity_pos", "scaled_identity_neg", "pos_scaled_identity"):
        s0 = {"scaled_identity_pos": 2.5, "scaled_identity_neg": -0.5,
              "pos_scaled_identity": 1.7}[k]
        cls = M.PositiveScaledIdentityMatrix if k == "pos_scaled_identity" \
            else M.ScaledIdentityMatrix
        return (np.array(s0), lambda t: cls(float(t), n), lambda t: float(t) * np.eye(n),
                [()], "scalar")
    if k in ("diagonal", "pos_diagonal"):
        d0 = mzoo.P_diag(n, seed, positive=(k == "pos_diagonal"))
        cls = M.PositiveDiagonalMatrix if k == "pos_diagonal" else M.DiagonalMatrix
        return d0, lambda t: cls(t.copy()), lambda t: np.diag(t), [(i,) for i in range(n)], \
            "vector"
    if k.startswith("tri_factored") and k.count("_") == 4:
        # tri_factored_{pos|neg|pd}_{lower|upper}_{obj|scaled|negated|inv}: the factor is handed
        # over as a TriangularMatrix object, or the matrix is derived from another one
        _, _, sg, lo, how = k.split("_")
        lower = lo == "lower"
        sign = -1 if sg == "neg" else 1
        T0 = mzoo.P_tri(n, seed, lower)
        free = [(i, j) for i in range(n) for j in range(n) if (i >= j if lower else i <= j)]

        def base(t, sign=sign):
            if sg == "pd":
                return M.TriangularFactoredPositiveDefiniteMatrix(
                    M.TriangularMatrix(t.copy(), lower=lower))
            return M.TriangularFactoredDefiniteMatrix(
                M.TriangularMatrix(t.copy(), lower=lower), sign=sign)

        struct = "triangular_lower" if lower else "triangular_upper"
        if how == "obj":
            return T0, base, lambda t: sign * t @ t.T, free, struct
        if how == "scaled":
            c = 2.5
            return (T0, lambda t: c * _warm_base(base(t / np.sqrt(c))),
                    lambda t: sign * t @ t.T, free, struct)
        if how == "negated":
            return T0, lambda t: -_warm_base(base(t)), lambda t: -sign * t @ t.T, free, struct
        raise KeyError(k)
    if k.startswith("tri_factored"):
        # tri_factored_{pos|neg|pd}_{lower|upper}
        _, _, sg, lo = k.split("_")
        lower = lo == "lower"
        sign = -1 if sg == "neg" else 1
        T0 = mzoo.P_tri(n, seed, lower)
        free = [(i, j) for i in range(n) for j in range(n) if (i >= j if lower else i <= j)]
        if sg == "pd":
            mk = lambda t: M.TriangularFactoredPositiveDefiniteMatrix(  # noqa: E731
                t.copy(), factor_is_lower=lower)
        else:
            mk = lambda t: M.TriangularFactoredDefiniteMatrix(  # noqa: E731
                t.copy(), sign=sign, factor_is_lower=lower)
        return T0, mk, lambda t: sign * t @ t.T, free, "triangular_lower" if lower \
            else "triangular_upper"
    if k in ("dense_definite_pos", "dense_definite_neg", "dense_pd"):
        B0 = mzoo.P_spd(n, seed) * (-1 if k == "dense_definite_neg" else 1)
        if k == "dense_pd":
            mk = lambda t: M.DensePositiveDefiniteMatrix(t.copy())  # noqa: E731
        else:
            mk = lambda t: M.DenseDefiniteMatrix(  # noqa: E731
                t.copy(), is_posdef=(k == "dense_definite_pos"))
        return B0, mk, lambda t: t, [(i, j) for i in range(n) for j in range(i + 1)], "symmetric"
    if k in ("dense_pd_upper_factor", "dense_definite_neg_upper_factor", "dense_pd_via_inv",
             "dense_pd_lower_factor_obj"):
        # a factor supplied by the caller (upper / lower TriangularMatrix object), or the
        # differentiable matrix obtained as the inverse of another one (its factor is upper)
        B0 = mzoo.P_spd(n, seed)

        def upper_factor(t):
            # U upper triangular with U U^T = t
            return np.linalg.cholesky(t[::-1, ::-1])[::-1, ::-1]

        free = [(i, j) for i in range(n) for j in range(i + 1)]
        if k == "dense_pd_upper_factor":
            return (B0, lambda t: M.DensePositiveDefiniteMatrix(
                t.copy(), factor=M.TriangularMatrix(upper_factor(t), lower=False)),
                lambda t: t, free, "symmetric")
        if k == "dense_pd_lower_factor_obj":
            return (B0, lambda t: M.DensePositiveDefiniteMatrix(
                t.copy(), factor=M.TriangularMatrix(np.linalg.cholesky(t), lower=True)),
                lambda t: t, free, "symmetric")
        if k == "dense_definite_neg_upper_factor":
            return (-B0, lambda t: M.DenseDefiniteMatrix(
                t.copy(), factor=M.TriangularMatrix(upper_factor(-t), lower=False),
                is_posdef=False), lambda t: t, free, "symmetric")
        return (B0, lambda t: M.DensePositiveDefiniteMatrix(np.linalg.inv(t)).inv,
                lambda t: t, free, "symmetric")
    if k.startswith("intfactor"):
        # intfactor_{pos|neg|pd}_{lower|upper}: triangular factored, factor of INTEGER dtype
        _, sg, lo = k.split("_")
        lower = lo == "lower"
        sign = -1 if sg == "neg" else 1
        T0 = np.array([[2.0, 0, 0, 0], [1, 3, 0, 0], [-1, 2, 5, 0], [3, 1, -2, -7]])[:n, :n]
        if not lower:
            T0 = T0.T.copy()
        free = [(i, j) for i in range(n) for j in range(n) if (i >= j if lower else i <= j)]
        if sg == "pd":
            mk = lambda t: M.TriangularFactoredPositiveDefiniteMatrix(  # noqa: E731
                t.astype(np.int64), factor_is_lower=lower)
        else:
            mk = lambda t: M.TriangularFactoredDefiniteMatrix(  # noqa: E731
                t.astype(np.int64), sign=sign, factor_is_lower=lower)
        return T0, mk, lambda t: sign * t @ t.T, free, "triangular_lower" if lower \
            else "triangular_upper"
    if k in ("dense_pd_product", "dense_pd_product_inner"):
        R0 = mzoo.P_rect(n, n + 1, seed)
        if k == "dense_pd_product":
            return (R0, lambda t: M.DensePositiveDefiniteProductMatrix(t.copy()),
                    lambda t: t @ t.T, [(i, j) for i in range(n) for j in range(n + 1)], "dense")
        B = mzoo.P_spd(n + 1, seed, 1)
        return (R0, lambda t: M.DensePositiveDefiniteProductMatrix(
            t.copy(), M.DensePositiveDefiniteMatrix(B.copy())),
            lambda t: t @ B @ t.T, [(i, j) for i in range(n) for j in range(n + 1)], "dense")
    if k.startswith("softabs"):
        # softabs_{coeff}_{variant}
        _, coeff, variant = k.split("_", 2)
        coeff = float(coeff)
        S0 = _sym(n, seed, variant)
        return (S0, lambda t: M.SoftAbsRegularizedPositiveDefiniteMatrix(t.copy(), coeff),
                lambda t: mzoo.softabs_dense(t, coeff),
                [(i, j) for i in range(n) for j in range(i + 1)], "symmetric")
    if k.startswith("low_rank"):
        # low_rank_{pos|neg}_{inner|noinner}_{diag|dense}[_{times|div}]: optionally derived from
        # another (possibly already used) matrix by a positive scalar multiple / division
        parts = k.split("_")
        _, _, sg, inn, base = parts[:5]
        how = parts[5] if len(parts) > 5 else None
        sign = 1 if sg == "pos" else -1
        r = 1 if n < 3 else 2
        U0 = (0.35 if sign == -1 else 1.0) * mzoo.P_rect(n, r, seed)
        if base == "diag":
            dA = np.diag(mzoo.P_diag(n, seed))
            mkA = lambda: M.PositiveDiagonalMatrix(mzoo.P_diag(n, seed))  # noqa: E731
        else:
            dA = mzoo.P_spd(n, seed)
            mkA = lambda: M.DensePositiveDefiniteMatrix(mzoo.P_spd(n, seed))  # noqa: E731
        if inn == "inner":
            dK = mzoo.P_spd(r, seed, 1)
            mkK = lambda: M.DensePositiveDefiniteMatrix(dK.copy())  # noqa: E731
        else:
            dK = np.eye(r)
            mkK = lambda: None  # noqa: E731
        mk0 = lambda t: M.PositiveDefiniteLowRankUpdateMatrix(  # noqa: E731
            t.copy(), mkA(), mkK(), None, sign)
        freeU = [(i, j) for i in range(n) for j in range(r)]
        if how == "times":
            return (U0, lambda t: 2.5 * _warm_base(mk0(t)),
                    lambda t: 2.5 * (dA + sign * t @ dK @ t.T), freeU, "dense")
        if how == "div":
            return (U0, lambda t: _warm_base(mk0(t)) / 0.4,
                    lambda t: (dA + sign * t @ dK @ t.T) / 0.4, freeU, "dense")
        return (U0, mk0, lambda t: dA + sign * t @ dK @ t.T, freeU, "dense")
    raise KeyError(k)


KINDS = (
    ["scaled_identity_pos", "scaled_identity_neg", "pos_scaled_identity", "diagonal",
     "pos_diagonal"]
    + [f"tri_factored_{s}_{l}" for s in ("pos", "neg", "pd") for l in ("lower", "upper")]
    + [f"tri_factored_{s}_{l}_{h}" for s in ("pos", "neg", "pd") for l in ("lower", "upper")
       for h in ("obj", "scaled", "negated")]
    + ["dense_definite_pos", "dense_definite_neg", "dense_pd", "dense_pd_product",
       "dense_pd_product_inner"]
    + [f"softabs_{c}_{v}" for c in ("0.5", "1.0", "10.0")
       for v in ("generic", "repeated_all", "repeated_pair", "repeated_rotated")]
    + [f"low_rank_{s}_{i}_{b}" for s in ("pos", "neg") for i in ("inner", "noinner")
       for b in ("diag", "dense")]
    + [f"low_rank_{s}_{i}_diag_{h}" for s in ("pos", "neg") for i in ("inner", "noinner")
       for h in ("times", "div")]
    + [f"softabs_{c}_{v}" for c in ("100.0", "1000.0")
       for v in ("generic", "repeated_rotated", "negative")]
    + ["dense_pd_upper_factor", "dense_pd_lower_factor_obj", "dense_definite_neg_upper_factor",
       "dense_pd_via_inv"]
    + [f"intfactor_{s}_{l}" for s in ("pos", "neg", "pd") for l in ("lower", "upper")]
)


def configs(tier, seed):
    cfgs = []
    for n in (1, 2, 3) if tier == "quick" else (1, 2, 3, 4):
        for k in KINDS:
            if n == 4 and k.startswith("dense_pd_product"):
                continue  # the zoo's parameter tables are 4 x 4 / 4 x 5
            for ps in ((seed,) if tier == "quick" else (seed, seed + 1, seed + 2, seed + 3)):
                cfgs.append({"kind": k, "n": n, "seed": ps, "block": False})
    # block compositions (tuple of block gradients), depth 2
    for combo in (("pos_diagonal", "dense_pd"), ("tri_factored_pd_lower", "softabs_1.0_generic"),
                  ("pos_scaled_identity", "low_rank_neg_inner_diag"),
                  ("dense_pd_product", "tri_factored_pd_upper", "pos_diagonal")):
        cfgs.append({"kind": list(combo), "n": 2, "seed": seed, "block": True})
    return cfgs


def fd_wrt(theta, free, fn, symmetric):
    out = {}
    for idx in free:
        e = np.zeros_like(theta, dtype=float)
        if idx == ():
            e = np.array(H)
        else:
            e[idx] = H
            if symmetric and idx[0] != idx[1]:
                e[idx[::-1]] = H
        out[idx] = (fn(theta + e) - fn(theta - e)) / (2 * H)
    return out


def check_single(cfg, acc, vec_shift=0):
    theta0, make, dense, free, structure = build_param_case(cfg)
    n = cfg["n"]
    m = make(theta0)
    d0 = dense(theta0)
    v = np.array([0.7, -1.3, 0.4, 1.9])[: d0.shape[0]] + 0.1 * vec_shift
    symmetric = structure == "symmetric"
    fields0 = {"class": type(m).__name__, "param_kind": cfg["kind"] if isinstance(cfg["kind"], str)
               else "block"}

    def ref_logdet(t):
        return np.linalg.slogdet(dense(t))[1]

    def ref_quad(t):
        return v @ np.linalg.solve(dense(t), v)

    wants = {}
    for warm, name, ref in [(w, nm, rf) for w in WARMS
                            for nm, rf in (("grad_log_abs_det", ref_logdet),
                                           ("grad_quadratic_form_inv", ref_quad))]:
        acc.count("evaluations")
        fields = {**fields0, "warm": "+".join(warm) or "none"}
        try:
            _BASE_WARM[0] = warm
            try:
                m = make(theta0)
            finally:
                _BASE_WARM[0] = ()
            apply_warm(m, warm)
            g = m.grad_log_abs_det if name == "grad_log_abs_det" \
                else m.grad_quadratic_form_inv(v.copy())
            g = np.asarray(g, dtype=float)
        except Exception as e:  # noqa: BLE001
            acc.violation(driver="lattice", config=cfg, fields={**fields, "method": name},
                          kind="exception", observed=repr(e)[:200], expected="gradient")
            continue
        if name not in wants:
            wants[name] = fd_wrt(theta0, free, ref, symmetric)
        want = wants[name]
        if g.shape != np.shape(theta0):
            acc.violation(driver="lattice", config=cfg, fields={**fields, "method": name},
                          kind="structure", observed=list(g.shape),
                          expected=list(np.shape(theta0)))
            continue
        if not np.all(np.isfinite(g)):
            acc.violation(driver="lattice", config=cfg, fields={**fields, "method": name},
                          kind="non_finite", observed=g, expected="finite gradient")
            continue
        scale = 1.0 + max(abs(x) for x in want.values())
        worst = 0.0
        for idx, w in want.items():
            if idx == ():
                got = float(g)
            elif symmetric and idx[0] != idx[1]:
                got = g[idx] + g[idx[::-1]]
            else:
                got = g[idx]
            worst = max(worst, abs(got - w))
        if worst > 2e-6 * scale:
            acc.violation(driver="lattice", config=cfg, fields={**fields, "method": name},
                          kind="value_mismatch", observed=g,
                          expected={str(k): x for k, x in want.items()}, err=worst)
            continue
        # structure: zeros outside the free entries (triangular parameters)
        if structure.startswith("triangular"):
            mask = np.ones_like(g, dtype=bool)
            for idx in free:
                mask[idx] = False
            if np.any(g[mask] != 0):
                acc.violation(driver="lattice", config=cfg, fields={**fields, "method": name},
                              kind="structure", observed=g, expected="zeros outside triangle")
                continue
        acc.outcome((fields["class"], name, n, fields["warm"], round(float(np.sum(g)), 8)))


def check_block(cfg, acc):
    from mici import matrices as M

    parts = [build_param_case({"kind": k, "n": cfg["n"], "seed": cfg["seed"]})
             for k in cfg["kind"]]
    blocks = [p[1](p[0]) for p in parts]
    m = M.PositiveDefiniteBlockDiagonalMatrix(blocks)
    sizes = [p[2](p[0]).shape[0] for p in parts]
    v = np.array([0.7, -1.3, 0.4, 1.9, -0.6, 1.1, 0.3, -0.8])[: sum(sizes)]
    fields = {"class": type(m).__name__, "param_kind": "block"}
    for name in ("grad_log_abs_det", "grad_quadratic_form_inv"):
        acc.count("evaluations")
        try:
            g = m.grad_log_abs_det if name == "grad_log_abs_det" \
                else m.grad_quadratic_form_inv(v.copy())
        except Exception as e:  # noqa: BLE001
            acc.violation(driver="lattice", config=cfg, fields={**fields, "method": name},
                          kind="exception", observed=repr(e)[:200], expected="gradient")
            continue
        if not isinstance(g, tuple) or len(g) != len(parts):
            acc.violation(driver="lattice", config=cfg, fields={**fields, "method": name},
                          kind="structure", observed=type(g).__name__,
                          expected="tuple of block gradients")
            continue
        off = 0
        for bi, (p, gb) in enumerate(zip(parts, g)):
            theta0, make, dense, free, structure = p
            nb = sizes[bi]
            vb = v[off:off + nb]
            off += nb
            sym = structure == "symmetric"
            ref = (lambda t: np.linalg.slogdet(dense(t))[1]) if name == "grad_log_abs_det" \
                else (lambda t: vb @ np.linalg.solve(dense(t), vb))
            want = fd_wrt(theta0, free, ref, sym)
            gb = np.asarray(gb, dtype=float)
            worst = 0.0
            for idx, w in want.items():
                got = float(gb) if idx == () else (
                    gb[idx] + gb[idx[::-1]] if sym and idx[0] != idx[1] else gb[idx])
                worst = max(worst, abs(got - w))
            scale = 1.0 + max(abs(x) for x in want.values())
            if gb.shape != np.shape(theta0) or not worst <= 2e-6 * scale:
                acc.violation(driver="lattice", config=cfg,
                              fields={**fields, "method": name, "block_kind": cfg["kind"][bi]},
                              kind="value_mismatch", observed=gb,
                              expected={str(k): x for k, x in want.items()}, err=worst)
            else:
                acc.outcome(("block", name, bi, round(float(np.sum(gb)), 8)))


def check_config(cfg, acc):
    if cfg.get("block"):
        check_block(cfg, acc)
    else:
        try:
            check_single(cfg, acc)
            check_single(cfg, acc, vec_shift=1)
        except np.linalg.LinAlgError:
            acc.count("skipped_singular_reference")
    acc.count("cases")
    if len(acc.samples) < 3:
        acc.sample({"config": cfg})


def run(tier, seed, acc):
    cfgs = configs(tier, seed)
    run_lattice(MOD, cfgs, acc)
    cov = {
        "evaluations": acc.counts.get("evaluations", 0),
        "distinct_nontrivial": len(acc.outcomes),
        "rule": "every DifferentiableMatrix class x option (sign, lower/upper, inner matrix, "
                "SoftAbs coefficient, repeated eigenvalues, block compositions) x size; both "
                "gradient methods vs central differences of the dense formulas over the free "
                "parameter entries (symmetric perturbations for symmetric parameters), after "
                "each history of the warm-up menu (inverse, square root, eigenvalues, transpose, "
                "log-determinant, earlier gradient calls; for matrices derived by a scalar "
                "multiple / division / negation the history is applied to the matrix they are "
                "derived from); "
                "distinct = distinct (class, method, size, gradient)",
        "exhaustive": True,
        "bounds": {"configs": len(cfgs), "fd_step": H},
    }
    return cov, ["central differences with h=1e-5 on well-conditioned lattice parameters "
                 "(truncation error ~1e-9 relative); tolerance 2e-6 relative"]


def replay(rec):
    return replay_lattice(MOD, rec)
