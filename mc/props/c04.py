"""C04 - constrained dynamics never leave the constraint manifold or its cotangent space.

Product: constraint x metric x density convention x plain/Gaussian x projection solver x solver
kwargs x inner steps x step size x start point.  Monitors after every successful step, sampled
momentum and momentum projection; direct projection-solver calls from states after an unconstrained
h2_flow (incl. far off the manifold): a return must satisfy the constraint to tolerance and have
the Lagrange-multiplier form, otherwise the solver must have raised ConvergenceError.
"""

from __future__ import annotations

import numpy as np

from mc import izoo, zoo
from mc.lattice import replay_lattice, run_lattice
from mc.script_rng import BasisRng

MOD = "mc.props.c04"
EPS = (0.05, 0.2, 0.5, 1.0, -0.2)
SOLVER_KW = [{}, {"max_iters": 1}, {"max_iters": 2}, {"max_iters": 50, "constraint_tol": 1e-12,
                                                      "position_tol": 1e-11}]
LS_KW = [{"max_line_search_iters": 1}, {"max_line_search_iters": 2},
         {"max_line_search_iters": 10, "max_iters": 2}]


def solver_fn(name):
    from mici import solvers as S

    return {"newton": S.solve_projection_onto_manifold_newton,
            "quasi_newton": S.solve_projection_onto_manifold_quasi_newton,
            "newton_line_search": S.solve_projection_onto_manifold_newton_with_line_search}[name]


def on_bundle(case, q, p, ctol, scale=1.0):
    con = case.constraint
    Mi = np.linalg.inv(case.metric_ref(q))
    c = float(np.max(np.abs(con.c(q))))
    cot = float(np.max(np.abs(con.jac(q) @ Mi @ p)))
    return c, cot


def check_steps(cfg, acc):
    from mici.errors import IntegratorError

    case = zoo.build_case(cfg["system"])
    S = case.system
    con = case.constraint
    rec = cfg["integrator"]
    F = {"class": type(S).__name__, "solver": rec[1], "constraint": con.kind,
         "metric": cfg["system"]["metric"]}
    kw = rec[4] if len(rec) > 4 else {}
    ctol = kw.get("constraint_tol", 1e-9)
    cond = np.linalg.cond(case.metric_ref(np.zeros(case.d)))
    sts = zoo.on_manifold_states(case, cfg["system"]["seed"], 3)

    def viol(kind, what, obs, exp, **k):
        acc.violation(driver="steps", config=cfg, fields={**F, "what": what}, kind=kind,
                      observed=obs, expected=exp, **k)

    for si, (q, p) in enumerate(sts):
        # sampled momentum and explicit projection
        acc.count("evaluations")
        try:
            z = np.array([0.7, -1.3, 0.4])[:case.d]
            m = np.array(S.sample_momentum(zoo.mk_state(q, None), BasisRng(z)), dtype=float)
            c, cot = on_bundle(case, q, m, ctol)
            if cot > 1e-9 * (1 + np.max(np.abs(m))) * cond:
                viol("cotangent", "sample_momentum_not_in_cotangent_space", cot, "<= 1e-9",
                     state=si)
            m2 = np.array(S.project_onto_cotangent_space(np.array(p + 0.3 * z), zoo.mk_state(q, p)))
            c, cot = on_bundle(case, q, m2, ctol)
            if cot > 1e-9 * (1 + np.max(np.abs(m2))) * cond:
                viol("cotangent", "projection_not_in_cotangent_space", cot, "<= 1e-9", state=si)
        except Exception as e:  # noqa: BLE001
            viol("exception", "momentum:" + type(e).__name__, repr(e)[:200], "momentum")
        # a second system object of the same class (other metric) using a state warmed by the
        # first one: its sampled / projected momenta must lie in ITS cotangent space
        if si == 0 and cfg["system"]["metric"] != "dense_pd":
            acc.count("evaluations")
            try:
                other = zoo.build_case(dict(cfg["system"], metric="dense_pd"))
                st = zoo.mk_state(q, p)
                S.sample_momentum(st, BasisRng(np.array([0.7, -1.3, 0.4])[:case.d]))
                S.h(st)
                S2 = other.system
                m = np.array(S2.sample_momentum(st, BasisRng(np.array([0.7, -1.3, 0.4])[:case.d])))
                c2, cot2 = on_bundle(other, q, m, ctol)
                if cot2 > 1e-8 * (1 + np.max(np.abs(m))) * np.linalg.cond(other.metric_ref(q)):
                    viol("cotangent", "second_system_momentum_not_in_its_cotangent_space", cot2,
                         "<= 1e-8", state=si)
            except Exception as e:  # noqa: BLE001
                viol("exception", "second_system:" + type(e).__name__, repr(e)[:200], "momentum")
        for eps in EPS:
            integ = izoo.build_integrator(rec, S, abs(eps))
            x = zoo.mk_state(q, p, 1 if eps > 0 else -1)
            for k in range(3):
                if k == 1 and eps == EPS[1]:
                    # provenance: continue from a pickled / deep-copied warm state
                    import copy as _copy
                    import pickle as _pickle
                    x = _pickle.loads(_pickle.dumps(x)) if si % 2 == 0 else _copy.deepcopy(x)
                acc.count("evaluations")
                try:
                    x = integ.step(x)
                except IntegratorError:
                    acc.count("steps_refused")
                    break
                except Exception as e:  # noqa: BLE001
                    viol("exception", "step:" + type(e).__name__, repr(e)[:200],
                         "IntegratorError or state", eps=eps, state=si, step=k)
                    break
                acc.count("steps_ok")
                xq, xp = np.array(x.pos), np.array(x.mom)
                if not (np.all(np.isfinite(xq)) and np.all(np.isfinite(xp))):
                    viol("manifold", "non_finite_state_returned", [xq, xp], "finite", eps=eps)
                    break
                if np.max(np.abs(xq)) > 1e3:
                    break
                c, cot = on_bundle(case, xq, xp, ctol)
                if c > 10 * ctol:
                    viol("manifold", "constraint_violated_after_step", c, f"< {10 * ctol}",
                         eps=eps, state=si, step=k)
                    break
                if cot > 1e-8 * (1 + np.max(np.abs(xp))) * cond:
                    viol("cotangent", "momentum_not_in_cotangent_space_after_step", cot,
                         "<= 1e-8", eps=eps, state=si, step=k)
                    break
                acc.outcome((F["class"], F["solver"], F["constraint"], F["metric"], eps, si, k))


def check_solver(cfg, acc):
    """Direct projection-solver calls."""
    from mici.errors import ConvergenceError

    case = zoo.build_case(cfg["system"])
    S = case.system
    con = case.constraint
    d = case.d
    name = cfg["solver"]
    fn = solver_fn(name)
    F = {"class": type(S).__name__, "solver": name, "constraint": con.kind,
         "metric": cfg["system"]["metric"]}
    sts = zoo.on_manifold_states(case, cfg["system"]["seed"], 3)

    def viol(kind, what, obs, exp, **k):
        acc.violation(driver="solver", config=cfg, fields={**F, "what": what}, kind=kind,
                      observed=obs, expected=exp, **k)

    kws = list(SOLVER_KW)
    if name == "newton_line_search":
        kws += LS_KW
    for si, (q, p) in enumerate(sts):
        for dt in (0.05, 0.3, -0.3, 1.0, 2.5):
            for push in (0.0, 0.8):  # extra displacement off the manifold before solving
                for kw in kws:
                    acc.count("evaluations")
                    prev = zoo.mk_state(q, p)
                    st = prev.copy()
                    try:
                        S.h2_flow(st, dt)
                    except Exception:  # noqa: BLE001
                        continue
                    if push:
                        st.pos = np.array(st.pos) + push * np.array([0.6, -0.4, 0.5])[:d]
                    pos_u, mom_u = np.array(st.pos), np.array(st.mom)
                    ctol = kw.get("constraint_tol", 1e-9)
                    try:
                        out = fn(st, prev, dt, S, **kw)
                    except ConvergenceError:
                        acc.count("solver_raised_convergence_error")
                        continue
                    except Exception as e:  # noqa: BLE001
                        viol("exception", "solver:" + type(e).__name__, repr(e)[:200],
                             "ConvergenceError or a state", dt=dt, state=si, kwargs=kw,
                             push=push)
                        continue
                    acc.count("solver_returned")
                    if out is not st and out is not None:
                        st = out
                    xq, xp = np.array(st.pos), np.array(st.mom)
                    res = float(np.max(np.abs(con.c(xq))))
                    if not res < ctol:
                        viol("solver", "returned_unconverged", res, f"< {ctol}", dt=dt,
                             state=si, kwargs=kw, push=push)
                        continue
                    # Lagrange form: dq = -dpos J_prev^T lam, dp = -sign(dt) dmom J_prev^T lam
                    Jp = con.jac(q)
                    dpos, dmom = S.dh2_flow_dmom(prev, abs(dt))
                    Apos = np.stack([np.asarray(dpos @ Jp[i]) for i in range(Jp.shape[0])], 1)
                    Amom = np.stack([np.asarray(dmom @ Jp[i]) for i in range(Jp.shape[0])], 1)
                    dq, dp = xq - pos_u, xp - mom_u
                    # one multiplier vector must explain BOTH corrections: joint least squares on
                    # the two equations, each scaled to unit size (for a heavy metric the
                    # position equation alone determines lam only to a few digits)
                    sgn = np.sign(dt)
                    a1 = float(np.max(np.abs(Apos))) or 1.0
                    a2 = float(np.max(np.abs(Amom))) or 1.0
                    lam, *_ = np.linalg.lstsq(np.vstack([Apos / a1, -sgn * Amom / a2]),
                                              np.concatenate([-dq / a1, dp / a2]), rcond=None)
                    r1 = float(np.max(np.abs(Apos @ lam + dq)))
                    r2 = float(np.max(np.abs(-sgn * (Amom @ lam) - dp)))
                    lmax = float(np.max(np.abs(lam))) if lam.size else 0.0
                    sc = 1.0 + float(np.max(np.abs(dq))) + a1 * lmax
                    scp = 1.0 + float(np.max(np.abs(dp))) + float(np.max(np.abs(mom_u))) \
                        + a2 * lmax
                    # rounding of the stored position (eps |q|) leaves lam uncertain by
                    # eps |q| / a1, which shows in the momentum equation scaled by a2 (and vice
                    # versa): the noise floor of this inference, dominant for extreme metrics
                    eps_ = 2.3e-16
                    floor2 = 50 * a2 * eps_ * (1.0 + float(np.max(np.abs(xq)))) / a1
                    floor1 = 50 * a1 * eps_ * (1.0 + float(np.max(np.abs(xp)))) / a2
                    if r1 > 1e-9 * sc + floor1 or r2 > 1e-8 * scp + floor2:
                        viol("solver", "correction_not_in_lagrange_form",
                             {"pos_residual": r1, "mom_residual": r2}, "both ~ 0", dt=dt,
                             state=si, kwargs=kw, push=push)
                        continue
                    acc.outcome((F["class"], name, F["constraint"], F["metric"], dt, push, si,
                                 str(sorted(kw.items()))))
                _tolerance_ladder(S, con, fn, q, p, dt, push, d, acc, viol, si)


REF_NORMS = {"max": lambda v: float(np.max(np.abs(np.asarray(v, dtype=float)))),
             "euclidean": lambda v: float(np.sqrt(np.sum(np.asarray(v, dtype=float) ** 2)))}


def _tolerance_ladder(S, con, fn, q, p, dt, push, d, acc, viol, si):
    """Boundary-targeted clause for "returns only when the residual (in the CHOSEN norm) is below
    the tolerance": the residuals e_0, e_1, ... the solver sees along its iteration are recorded
    with a reference norm handed in as `norm=`; then, for each documented norm function of
    mici.solvers and each recorded level e, the solver runs with constraint_tol = 0.85 e (so the
    iterate with residual e must NOT be accepted) and whatever it returns is measured with the
    reference norm.  Enumerates every stopping point of the iteration, for both norms."""
    from mici import solvers as SV
    from mici.errors import ConvergenceError

    K = con.n_constr
    if K == d:
        return
    real = {"max": SV.maximum_norm, "euclidean": SV.euclidean_norm}

    def start():
        prev = zoo.mk_state(q, p)
        st = prev.copy()
        S.h2_flow(st, dt)
        if push:
            st.pos = np.array(st.pos) + push * np.array([0.6, -0.4, 0.5])[:d]
        return st, prev

    for nname, ref in REF_NORMS.items():
        seen = []

        def rec(v, ref=ref, seen=seen):
            r = ref(v)
            if np.shape(v) == (K,):
                seen.append(r)
            return r

        try:
            st, prev = start()
            fn(st, prev, dt, S, norm=rec, constraint_tol=0.0, max_iters=6)
        except Exception:  # noqa: BLE001, S110
            pass  # never converges by construction (tolerance 0); may also diverge
        levels = sorted({r for r in seen if 1e-12 < r < 1e3}, reverse=True)[:6]
        for e in levels:
            tol = 0.85 * e
            acc.count("evaluations")
            acc.count("ladder_calls")
            try:
                st, prev = start()
                out = fn(st, prev, dt, S, norm=real[nname], constraint_tol=tol,
                         position_tol=1e300, max_iters=50)
            except ConvergenceError:
                acc.count("ladder_raised")
                continue
            except Exception as ex:  # noqa: BLE001
                viol("exception", "ladder:" + type(ex).__name__, repr(ex)[:200],
                     "ConvergenceError or a state", dt=dt, state=si, push=push, norm=nname,
                     constraint_tol=tol)
                continue
            if out is not st and out is not None:
                st = out
            res = ref(con.c(np.array(st.pos)))
            acc.count("ladder_returned")
            if not res < tol * (1 + 1e-9):
                viol("solver", "returned_above_tolerance_in_chosen_norm:" + nname, res,
                     f"< {tol}", dt=dt, state=si, push=push, norm=nname, constraint_tol=tol,
                     n_constraints=K)


def check_config(cfg, acc):
    if cfg["mode"] == "steps":
        check_steps(cfg, acc)
    else:
        check_solver(cfg, acc)
    acc.count("cases")
    if len(acc.samples) < 3:
        acc.sample(cfg)


def configs(tier, seed):
    quick = tier == "quick"
    cfgs = []
    sysc = zoo.system_configs(seed, tier, families=("constrained", "gaussian_constrained"),
                              all_convs=False, dims=(2, 3), derived_metrics=True)
    for sc in sysc:
        if quick and sc["target"] != "quartic":
            continue
        if quick and sc["metric"] not in ("none", "identity", "dense_pd", "pos_diagonal",
                                          "low_rank_downdate", "softabs",
                                          "derived_heavy_identity", "derived_scaled_inv_dense"):
            continue
        for solver in izoo.PROJ_SOLVERS:
            cfgs.append({"mode": "solver", "system": sc, "solver": solver})
            for n_inner in (1, 2, 3):
                kws = [{}] if quick else [{}, {"max_iters": 2}, {"max_iters": 5}]
                if solver == "newton_line_search":
                    kws = kws + [{"max_line_search_iters": 1}, {"max_line_search_iters": 2}]
                for kw in kws:
                    cfgs.append({"mode": "steps", "system": sc,
                                 "integrator": ["constrained_leapfrog", solver, n_inner, False,
                                                kw]})
    return cfgs


def run(tier, seed, acc):
    from mc.runner import HarnessError

    cfgs = configs(tier, seed)
    run_lattice(MOD, cfgs, acc, shards_per_worker=8)
    c = acc.counts
    if not acc.viol and (c.get("steps_ok", 0) < 500 or c.get("solver_returned", 0) < 500 or \
            c.get("solver_raised_convergence_error", 0) < 50):
        raise HarnessError(f"C04 non-vacuity floor missed: {c}")
    cov = {
        "evaluations": c.get("evaluations", 0),
        "distinct_nontrivial": len(acc.outcomes),
        "rule": "constraint (affine, sphere, ellipsoid-and-plane) x metric x density convention x "
                "plain/Gaussian x 3 projection solvers x solver kwargs x inner steps x step size "
                "x 3 start points; 3 consecutive steps monitored; direct solver calls after an "
                "unconstrained h2_flow with 5 time steps and an extra off-manifold push; "
                "non-trivial = distinct successful monitored steps / solver returns",
        "exhaustive": True,
        "bounds": {"configs": len(cfgs), "steps_ok": c.get("steps_ok", 0),
                   "steps_refused": c.get("steps_refused", 0),
                   "solver_returned": c.get("solver_returned", 0),
                   "solver_raised": c.get("solver_raised_convergence_error", 0)},
    }
    return cov, ["start points are put on the manifold by harness-side Newton projection",
                 "Lagrange form verified by dense least squares against dh2_flow_dmom (whose "
                 "blocks C07 verifies)"]


def replay(rec):
    return replay_lattice(MOD, rec)
