"""C09 - state-level caching is transparent.

E2 search over histories of assignments (new array / in-place write-through), copies (incl.
read-only), pickle round trips, component flows and calls of every cached method of every system
class, on up to two live states.  In every distinct state: every method of both systems on every
live state equals the value on a from-scratch state; then every variable of every writable state is
re-assigned in turn and all methods are compared again (probe suffix).  Second clause: integrator
steps and transitions on an amnesic state (cache forgets after one read) equal those on a normal
state.
"""

from __future__ import annotations

import numpy as np

from mc import cacheworld as cw
from mc.explore_bfs import bfs

MOD = "mc.props.c09"


def build_factory(spec, conv, d, acc):
    def build(hist):
        w = cw.World(spec, conv, d)
        for op in hist:
            try:
                w.apply(op)
            except Exception as e:  # noqa: BLE001
                w.failed = (op, type(e).__name__, repr(e)[:200])
                break
        return w
    return build


def check_all_methods(w, hist, acc, phase, cfg):
    """Every method of both systems on every live state vs a from-scratch state."""
    for sid in sorted(w.states):
        st = w.states[sid]
        for sysid in sorted(w.systems):
            system = w.systems[sysid]
            for m in w.methods:
                acc.count("method_comparisons")
                fn = getattr(system, m)
                try:
                    ref = ("ok", cw.digest(fn(cw.fresh_state_like(st))))
                except Exception as e:  # noqa: BLE001
                    ref = ("exc", type(e).__name__)
                try:
                    got = ("ok", cw.digest(fn(st)))
                except Exception as e:  # noqa: BLE001
                    got = ("exc", type(e).__name__)
                if got != ref:
                    acc.violation(
                        driver="bfs", config=cfg,
                        fields={"class": type(system).__name__, "method": m, "phase": phase},
                        kind="stale_or_wrong_cached_value", observed=got, expected=ref,
                        history=hist, state=sid, system=sysid)
                    return False
    return True


def make_invariant(spec, conv, d, acc, cfg):
    def invariant(w, hist):
        acc.count("states_checked")
        if w.failed is not None:
            op, ename, msg = w.failed
            # operations on a read-only state are refused by design
            if ename == "ReadOnlyStateError":
                return
            acc.violation(driver="bfs", config=cfg,
                          fields={"class": type(w.systems["A"]).__name__,
                                  "method": str(op[0]) + ":" + str(op[-1]), "phase": "op"},
                          kind="operation_raised", observed=msg, expected="no exception",
                          history=hist)
            return
        # probe suffix 0 (on a world rebuilt from the history, before anything is evaluated here):
        # the FIRST evaluation of every method happens on a read-only copy; a writable copy of
        # that copy is then re-assigned and evaluated again
        w0 = cw.World(spec, conv, d)
        for op in hist:
            w0.apply(op)
        for sid in sorted(w0.states):
            keep = dict(w0.states)
            ro = keep[sid].copy(read_only=True)
            w0.states = {"s2": ro}
            if not check_all_methods(w0, hist + [["probe-ro-first", sid]], acc, "probe-ro-first",
                                     cfg):
                return
            wr = ro.copy()
            w0.states = {"s3": wr}
            for var in ("pos", "mom"):
                setattr(wr, var, cw.VALS[d][var][1].copy() + 0.0625)
                if not check_all_methods(w0, hist + [["probe-ro-first", sid],
                                                     ["probe-copy-then-set", var]], acc,
                                         "probe-ro-first", cfg):
                    return
            break  # the remaining states are related to this one: their first evaluation is over
        if not check_all_methods(w, hist, acc, "saturate", cfg):
            return
        # probe suffix 3: a system DERIVED from a used one (deep copy / pickle round trip) and then
        # given another metric shares the states with the original
        import copy as _copy
        import pickle as _pk
        if hasattr(w.systems["A"], "metric") and not callable(getattr(w.systems["A"], "metric")):
            for how, fn in (("deepcopy", _copy.deepcopy),
                            ("pickle", lambda x: _pk.loads(_pk.dumps(x)))):
                try:
                    D = fn(w.systems["A"])
                    D.metric = w.systems["B"].metric
                except Exception:  # noqa: BLE001
                    continue  # systems built from local functions cannot be pickled
                w.systems["D"] = D
                ok = check_all_methods(w, hist + [["probe-derived-system", how]], acc,
                                       "probe-derived-system", cfg)
                del w.systems["D"]
                if not ok:
                    return
        # probe suffix 1: re-assign each variable of each writable state, then compare again
        def other_value(sid, var):
            cur = getattr(w.states[sid], var)
            for vidx in (0, 1):
                if not np.array_equal(cur, cw.VALS[d][var][vidx]):
                    return vidx
            return 0

        for sid in sorted(w.states):
            if w.states[sid]._read_only:  # noqa: SLF001
                continue
            for var in ("pos", "mom"):
                vidx = other_value(sid, var)
                setattr(w.states[sid], var, cw.VALS[d][var][vidx].copy())
                if not check_all_methods(w, hist + [["probe-set", sid, var, vidx]], acc,
                                         "probe", cfg):
                    return
        # probe suffix 2: invalidate, derive a state (pickle / copy / read-only copy), compare on
        # both, re-assign on the derived (or original) state, compare again
        import pickle as _pickle

        derivs = (("pickle", lambda s: _pickle.loads(_pickle.dumps(s))),
                  ("copy", lambda s: s.copy()),
                  ("copy_ro", lambda s: s.copy(read_only=True)))
        for sid in sorted(w.states):
            if w.states[sid]._read_only:  # noqa: SLF001
                continue
            for dname, dfn in derivs:
                for var in ("pos", "mom"):
                    ph = hist + [["probe-" + dname, sid, var]]
                    # entries depending on var become None, then the state is derived
                    setattr(w.states[sid], var,
                            cw.VALS[d][var][other_value(sid, var)].copy())
                    try:
                        w.states["s2"] = dfn(w.states[sid])
                    except Exception as e:  # noqa: BLE001
                        acc.violation(driver="bfs", config=cfg,
                                      fields={"class": type(w.systems["A"]).__name__,
                                              "method": dname, "phase": "probe-derive"},
                                      kind="operation_raised", observed=repr(e)[:200],
                                      expected="no exception", history=ph)
                        return
                    if not check_all_methods(w, ph, acc, "probe-" + dname, cfg):
                        return
                    # now change the writable one of the pair and compare both again
                    tgt = "s2" if dname != "copy_ro" else sid
                    setattr(w.states[tgt], var,
                            cw.VALS[d][var][other_value(tgt, var)].copy())
                    if not check_all_methods(w, ph + [["probe-set", tgt, var]], acc,
                                             "probe-" + dname, cfg):
                        return
                    del w.states["s2"]
        acc.outcome((spec, conv, hash(str(hist))))
    return invariant


def explore_class(cfg, acc):
    spec, conv, d, depth = cfg["spec"], cfg["conv"], cfg["d"], cfg["depth"]
    build = build_factory(spec, conv, d, acc)
    inv = make_invariant(spec, conv, d, acc, cfg)

    def enabled(w, hist):
        if w.failed is not None:
            return []
        return w.enabled_ops()

    res = bfs(build, enabled, cw.canon, inv, depth, invariant_new_only=True,
              max_states=cfg.get("max_states"))
    acc.count("states", res["states"])
    acc.count("transitions", res["transitions"])
    acc.notes["max_depth"] = max(acc.notes.get("max_depth", 0), res["max_depth"])
    if res["capped"]:
        acc.count("capped_classes")
    if len(acc.samples) < 2:
        acc.sample({"config": cfg, "states": res["states"], "transitions": res["transitions"],
                    "example_ops": build([]).enabled_ops()[:6]})


# ---------------------------------------------------------------------------------------------
# second clause: amnesic states
# ---------------------------------------------------------------------------------------------


def amnesic_state_class():
    from mici.states import ChainState

    class AmnesicDict(dict):
        """Every entry can be read at most once: memoisation is defeated without touching mici."""

        def __getitem__(self, k):
            v = dict.__getitem__(self, k)
            if v is not None:
                dict.__delitem__(self, k)
            return v

        def copy(self):
            return AmnesicDict(dict.copy(self))

    class AmnesicState(ChainState):
        def __init__(self, **kw):
            super().__init__(**kw)
            self.__dict__["_cache"] = AmnesicDict(self.__dict__["_cache"])

    return AmnesicState


def check_amnesic(cfg, acc):
    from mici import transitions as T
    from mici.errors import IntegratorError
    from mici.states import ChainState
    from mc import izoo, zoo
    from mc.script_rng import StreamRng

    case = zoo.build_case(cfg["system"])
    rec = cfg["integrator"]
    Am = amnesic_state_class()
    F = {"class": type(case.system).__name__, "method": rec[0], "phase": "amnesic"}
    sts = zoo.on_manifold_states(case, cfg["system"]["seed"], 2) if case.constraint is not None \
        else zoo.states(case.d, cfg["system"]["seed"], 2)
    for eps in (0.1, 0.3):
        integ = izoo.build_integrator(rec, case.system, eps)
        for si, (q, p) in enumerate(sts):
            runs = {}
            for label, cls in (("normal", ChainState), ("amnesic", Am)):
                acc.count("evaluations")
                st = cls(pos=q.copy(), mom=p.copy(), dir=1)
                try:
                    x = st
                    for _ in range(2):
                        x = integ.step(x)
                    runs[label] = ("ok", np.array(x.pos), np.array(x.mom))
                except IntegratorError as e:
                    runs[label] = ("err", type(e).__name__)
                except Exception as e:  # noqa: BLE001
                    runs[label] = ("exc", type(e).__name__, repr(e)[:200])
            a, b = runs["normal"], runs["amnesic"]
            same = a[0] == b[0] and (a[0] != "ok" or (np.array_equal(a[1], b[1])
                                                      and np.array_equal(a[2], b[2])))
            if not same:
                acc.violation(driver="amnesic", config=cfg, fields=F,
                              kind="caching_changes_result", observed=b, expected=a, eps=eps,
                              state=si)
            else:
                acc.outcome(("amnesic", F["class"], rec[0], eps, si, a[0]))
            # momentum transitions on a warm state, followed by reading the Hamiltonian
            for coeff in (1.0, 0.5):
                outs = {}
                for label, cls in (("normal", ChainState), ("amnesic", Am)):
                    acc.count("evaluations")
                    st = cls(pos=q.copy(), mom=p.copy(), dir=1)
                    try:
                        case.system.h(st)
                        case.system.dh_dmom(st)
                        mt = T.CorrelatedMomentumTransition(case.system, coeff)
                        st2, _ = mt.sample(st, StreamRng())
                        outs[label] = ("ok", np.array(st2.mom), float(case.system.h(st2)),
                                       np.array(case.system.dh_dmom(st2)))
                    except Exception as e:  # noqa: BLE001
                        outs[label] = ("exc", type(e).__name__, repr(e)[:200])
                a, b = outs["normal"], outs["amnesic"]
                same = a[0] == b[0] and (a[0] != "ok" or (
                    np.array_equal(a[1], b[1]) and a[2] == b[2] and np.array_equal(a[3], b[3])))
                if not same:
                    acc.violation(driver="amnesic", config=cfg,
                                  fields={**F, "method": f"correlated_momentum({coeff})"},
                                  kind="caching_changes_result", observed=b, expected=a,
                                  state=si)
                    break
            # transitions
            for tname in ("static", "multinomial", "slice"):
                outs = {}
                for label, cls in (("normal", ChainState), ("amnesic", Am)):
                    acc.count("evaluations")
                    st = cls(pos=q.copy(), mom=p.copy(), dir=1)
                    if tname == "static":
                        tr = T.MetropolisStaticIntegrationTransition(case.system, integ, 2)
                    elif tname == "multinomial":
                        tr = T.MultinomialDynamicIntegrationTransition(case.system, integ,
                                                                       max_tree_depth=2)
                    else:
                        tr = T.SliceDynamicIntegrationTransition(case.system, integ,
                                                                 max_tree_depth=2)
                    try:
                        new, stats = tr.sample(st, StreamRng())
                        outs[label] = ("ok", np.array(new.pos), np.array(new.mom),
                                       sorted((k, float(v)) for k, v in stats.items()))
                    except Exception as e:  # noqa: BLE001
                        outs[label] = ("exc", type(e).__name__, repr(e)[:200])
                a, b = outs["normal"], outs["amnesic"]
                same = a[0] == b[0] and (a[0] != "ok" or (
                    np.array_equal(a[1], b[1]) and np.array_equal(a[2], b[2])
                    and repr(a[3]) == repr(b[3])))
                if not same:
                    acc.violation(driver="amnesic", config=cfg,
                                  fields={**F, "method": rec[0] + "/" + tname},
                                  kind="caching_changes_result", observed=b, expected=a,
                                  eps=eps, state=si)
                else:
                    acc.outcome(("amnesic", F["class"], rec[0], tname, eps, si))


def check_config(cfg, acc):
    if cfg["mode"] == "bfs":
        explore_class(cfg, acc)
    else:
        check_amnesic(cfg, acc)
    acc.count("cases")


def configs(tier, seed):
    from mc import izoo, zoo

    cfgs = []
    depth = 2 if tier == "quick" else 3
    for spec, _ in cw.SYSTEM_SPECS:
        for conv in cw.CONVS + cw.CONVS_MIXED:
            if conv == "mixed_mid" and spec != "softabs_riemannian":
                continue
            if conv == "mixed_top" and not (set(cw.methods_of(dict(cw.SYSTEM_SPECS)[spec]))
                                            & {"mhp_constr", "mtp_neg_log_dens",
                                               "vjp_metric_func"}):
                continue
            cfgs.append({"mode": "bfs", "spec": spec, "conv": conv, "d": 2,
                         "depth": 2 if conv in cw.CONVS_MIXED else depth, "seed": seed})
    if tier == "thorough":
        for spec in ("gaussian", "constrained_gram", "softabs_riemannian"):
            cfgs.append({"mode": "bfs", "spec": spec, "conv": "with_value", "d": 3, "depth": 2,
                         "seed": seed})
    sysc = zoo.system_configs(seed, "quick", all_convs=False, dims=(2,))
    for sc in sysc:
        if sc["target"] != "quartic":
            continue
        if sc.get("metric") is not None and sc["metric"] not in ("none", "dense_pd",
                                                                  "pos_diagonal"):
            continue
        fam = sc["family"]
        if fam in ("euclidean", "gaussian"):
            recs = [["leapfrog"], ["bcss3"], ["implicit_midpoint", "direct", False]]
        elif fam == "riemannian":
            if sc["softabs_coeff"] != 1.0:
                continue
            recs = [["implicit_leapfrog", "direct", False], ["implicit_midpoint", "steffensen",
                                                             False]]
        else:
            recs = [["constrained_leapfrog", "newton", 1, False],
                    ["constrained_leapfrog", "quasi_newton", 2, False]]
        for r in recs:
            cfgs.append({"mode": "amnesic", "system": sc, "integrator": r})
    return cfgs


def run(tier, seed, acc):
    from mc.lattice import run_lattice

    cfgs = configs(tier, seed)
    # longest first
    cfgs.sort(key=lambda c: 0 if c["mode"] == "bfs" else 1)
    run_lattice(MOD, cfgs, acc, shards_per_worker=16)
    c = acc.counts
    cov = {
        "states": c.get("states", 0),
        "transitions": c.get("transitions", 0),
        "traces_validated_against_impl": c.get("transitions", 0),
        "evaluations": c.get("method_comparisons", 0) + c.get("evaluations", 0),
        "distinct_nontrivial": len(acc.outcomes),
        "rule": "BFS over histories (assign new / in-place, setdir, copy, read-only copy, pickle, "
                "h1/h2 flow, call of every cached method) per system class x return convention; "
                "canonical state = variable values, flags, cache digests, aliasing of cached "
                "arrays with live variables, dependency sets; in every distinct state all methods "
                "of two system objects on all live states are compared with from-scratch states, "
                "then again after re-assigning each variable (probe suffix); plus amnesic-state "
                "runs of integrators and transitions; non-trivial = distinct states that passed",
        "exhaustive": not c.get("capped_classes"),
        "bounds": {"depth": 2 if tier == "quick" else 3, "classes": len(cw.SYSTEM_SPECS),
                   "conventions": len(cw.CONVS),
                   "method_comparisons": c.get("method_comparisons", 0)},
        "caps_hit": ["max_states"] if c.get("capped_classes") else [],
    }
    return cov, ["states with equal canonical form are merged and the invariant is evaluated once "
                 "per distinct state: the canonical form contains every field the decorators "
                 "and ChainState read (cache entries, dependency sets, read-only flag, variable "
                 "values) plus memory aliasing between cached arrays and live variables",
                 "values compared exactly (arrays bit-identical, functions on fixed arguments)"]


def replay(rec):
    from mc.runner import Acc

    acc = Acc()
    cfg = rec["config"]
    if rec["driver"] == "bfs":
        hist = [h for h in rec["history"] if not str(h[0]).startswith("probe-")]
        build = build_factory(cfg["spec"], cfg["conv"], cfg["d"], acc)
        inv = make_invariant(cfg["spec"], cfg["conv"], cfg["d"], acc, cfg)
        inv(build(hist), hist)
    else:
        check_amnesic(cfg, acc)
    want = rec["fields"]
    for recs in acc.viol.values():
        if recs[0]["fields"] == want:
            return True, {"history": rec.get("history"), "observed": recs[0]["observed"],
                          "expected": recs[0]["expected"], "fields": want}
    return False, {"violations_seen": [r[0]["fields"] for r in acc.viol.values()]}
