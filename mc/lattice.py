"""Shared loop for checks that enumerate a finite configuration lattice completely.

A property module provides ``configs(tier, seed) -> list[dict]`` (JSON-able) and
``check_config(cfg, acc)`` which builds the real objects from cfg, evaluates the oracle and records
violations/counters in acc.  Configurations are dealt round-robin to worker processes.  A replay
re-runs check_config on the recorded configuration only.
"""

from __future__ import annotations

import importlib


def _shard(job):
    from mc.runner import Acc

    modname, cfgs = job
    mod = importlib.import_module(modname)
    acc = Acc()
    for cfg in cfgs:
        mod.check_config(cfg, acc)
        acc.count("configs")
    return acc.dump()


def run_lattice(modname, cfgs, acc, shards_per_worker=4):
    from mc.runner import N_WORKERS, pmap

    nsh = max(1, min(len(cfgs), N_WORKERS * shards_per_worker))
    jobs = [(modname, cfgs[i::nsh]) for i in range(nsh)]
    for d in pmap("mc.lattice", "_shard", jobs):
        acc.merge(d)


def replay_lattice(modname, rec):
    from mc.runner import Acc

    mod = importlib.import_module(modname)
    acc = Acc()
    mod.check_config(rec["config"], acc)
    want = rec["fields"]
    for recs in acc.viol.values():
        if recs[0]["fields"] == want:
            r = recs[0]
            return True, {"config": rec["config"], "kind": r["kind"], "observed": r["observed"],
                          "expected": r["expected"], "fields": want}
    return False, {"config": rec["config"], "violations_seen": [r[0]["fields"]
                                                               for r in acc.viol.values()]}
