"""E3 - cooperative scheduler for simulated worker processes + fake pool / manager queues.

Parent and logical workers run as Python threads holding a baton (one semaphore per participant);
only the baton holder runs.  Operations of the fake manager queues, worker start/finish and
AsyncResult.get are the scheduling points.  put/get pickle and unpickle their payload and
starmap_async pickles arguments per task and results back, so process isolation is preserved.
A blocking get on an empty queue disables the participant; "nobody enabled and somebody unfinished"
is reported as a hang.  Exploration: iterative preemption bounding on top of E1 (continuing the
running participant is the default choice; switching away from a runnable participant costs one
preemption; forced switches are free).
"""

from __future__ import annotations

import pickle
import queue as _queue
import threading
from contextlib import contextmanager


class Hang(Exception):
    """No participant is enabled but some have not finished."""


class _Abort(BaseException):
    """Raised inside participants to unwind them when an execution is abandoned."""


class Participant:
    def __init__(self, pid, name):
        self.pid, self.name = pid, name
        self.sem = threading.Semaphore(0)
        self.done = False
        self.block_pred = None  # callable -> bool: enabled again when it returns True
        self.thread = None
        self.result = None
        self.exc = None


_REGISTRY = {}


def _lookup_queue(key):
    return _REGISTRY[key]


class Scheduler:
    def __init__(self, ctx, points="all"):
        self.ctx = ctx
        self.parts = [Participant(0, "parent")]
        self.current = 0
        self.aborting = False
        self.hang = None
        self.n_points = 0
        self.assignments = []  # (worker pid, chain index) in the order chains were taken
        self.trace = []
        self.points = points
        self.lock = threading.Lock()

    # ---- participants ----
    def enabled(self, p):
        if p.done:
            return False
        if p.block_pred is None:
            return True
        return bool(p.block_pred())

    def _switch_to(self, nxt, me):
        """Hand the baton from participant `me` to `nxt` (me may be done)."""
        if nxt is me:
            return
        self.current = nxt.pid
        nxt.sem.release()
        if me is not None and not me.done:
            me.sem.acquire()
            if self.aborting:
                raise _Abort()

    def point(self, label, block_pred=None, must_yield=False):
        """Scheduling point reached by the running participant."""
        me = self.parts[self.current]
        if self.aborting:
            raise _Abort()
        self.n_points += 1
        me.block_pred = block_pred
        cands = [p for p in self.parts if self.enabled(p)]
        if not cands:
            self._deadlock(me)
            return
        me_enabled = me in cands
        order = ([me] if me_enabled else []) + [p for p in cands if p is not me]
        if len(order) == 1:
            nxt = order[0]
        else:
            c = self.ctx.choose(len(order), label, free=not me_enabled)
            nxt = order[c]
        self.trace.append((label, me.pid, nxt.pid))
        self._switch_to(nxt, me)
        me.block_pred = None

    def _deadlock(self, me):
        self.hang = {"blocked": [(p.name, p.done) for p in self.parts], "at": self.n_points}
        self.aborting = True
        for p in self.parts:
            if p is not me:
                p.sem.release()
        raise Hang(str(self.hang)) if me.pid == 0 else _Abort()

    def finish(self, me):
        """Called by a worker thread when its function returned."""
        me.done = True
        if self.aborting:
            return
        cands = [p for p in self.parts if self.enabled(p)]
        if not cands:
            if all(p.done for p in self.parts):
                return
            self.hang = {"blocked": [(p.name, p.done) for p in self.parts], "at": self.n_points}
            self.aborting = True
            for p in self.parts:
                if p is not me:
                    p.sem.release()
            return
        if len(cands) == 1:
            nxt = cands[0]
        else:
            nxt = cands[self.ctx.choose(len(cands), "worker-exit", free=True)]
        self.current = nxt.pid
        nxt.sem.release()

    def spawn(self, name, fn, args):
        p = Participant(len(self.parts), name)
        self.parts.append(p)

        def body():
            p.sem.acquire()
            if self.aborting:
                return
            try:
                p.result = ("ok", pickle.dumps(fn(*pickle.loads(args))))
            except _Abort:
                return
            except BaseException as e:  # noqa: BLE001
                p.result = ("exc", e)
            self.finish(p)

        p.thread = threading.Thread(target=body, daemon=True)
        p.thread.start()
        return p

    def abort(self):
        self.aborting = True
        for p in self.parts[1:]:
            p.sem.release()
        for p in self.parts[1:]:
            if p.thread is not None:
                p.thread.join(timeout=5)


# Parent-side interrupt (a SIGINT delivered to the main process while it waits for progress
# updates): the harness sets label / k; the k-th blocking `get` of that queue made by the parent
# raises KeyboardInterrupt instead of returning an item (the item stays in the queue).
PARENT_FAULT = {"label": None, "k": None, "count": 0, "fired": False}


class FakeQueue:
    def __init__(self, sched, name):
        self.sched, self.name = sched, name
        self.items = []
        self.key = (id(sched), name)
        _REGISTRY[self.key] = self

    def __reduce__(self):
        return (_lookup_queue, (self.key,))

    def put(self, item, block=True, timeout=None):
        self.sched.point(f"{self.name}.put")
        self.items.append(pickle.dumps(item))

    def empty(self):
        self.sched.point(f"{self.name}.empty")
        return not self.items

    def get(self, block=True, timeout=None):
        if block:
            self.sched.point(f"{self.name}.get", block_pred=lambda: bool(self.items))
            if self.sched.current == 0 and PARENT_FAULT["label"] == f"{self.name}.get":
                k = PARENT_FAULT["count"]
                PARENT_FAULT["count"] = k + 1
                if k == PARENT_FAULT["k"] and not PARENT_FAULT["fired"]:
                    PARENT_FAULT["fired"] = True
                    raise KeyboardInterrupt
        else:
            self.sched.point(f"{self.name}.get_nowait")
        if not self.items:
            raise _queue.Empty
        item = pickle.loads(self.items.pop(0))
        if self.name == "chain_queue":
            self.sched.assignments.append((self.sched.current, item[0]))
        return item


class FakeManager:
    def __init__(self, sched):
        self.sched = sched
        self.n = 0

    def Queue(self):  # noqa: N802
        # _sample_chains_parallel creates iter_queue first, then chain_queue
        name = ["iter_queue", "chain_queue"][self.n] if self.n < 2 else f"queue{self.n}"
        self.n += 1
        return FakeQueue(self.sched, name)


class FakeAsyncResult:
    def __init__(self, sched, workers):
        self.sched, self.workers = sched, workers

    def ready(self):
        return all(w.done for w in self.workers)

    def get(self, timeout=None):
        self.sched.point("results.get", block_pred=self.ready)
        out = []
        for w in self.workers:
            kind, val = w.result
            if kind == "exc":
                raise val
            out.append(pickle.loads(val))
        return out


class FakePool:
    def __init__(self, sched, n_process):
        self.sched, self.n_process = sched, n_process
        self.results = []

    def starmap_async(self, fn, arglist):
        workers = [self.sched.spawn(f"worker{i}", fn, pickle.dumps(tuple(a)))
                   for i, a in enumerate(arglist)]
        res = FakeAsyncResult(self.sched, workers)
        self.results.append(res)
        return res

    def close(self):
        pass

    def join(self):
        for r in self.results:
            if not r.ready():
                self.sched.point("pool.join", block_pred=r.ready)

    def terminate(self):
        pass


@contextmanager
def simulated_pool(sched):
    """Patch mici.samplers so that _sample_chains_parallel runs against the simulated pool."""
    import mici.samplers as ms

    @contextmanager
    def fake_manager():
        yield FakeManager(sched)

    old = (ms.Pool, ms._ignore_sigint_manager)  # noqa: SLF001
    ms.Pool = lambda n: FakePool(sched, n)
    ms._ignore_sigint_manager = fake_manager  # noqa: SLF001
    try:
        yield
    finally:
        ms.Pool, ms._ignore_sigint_manager = old  # noqa: SLF001
        for k in [k for k in _REGISTRY if k[0] == id(sched)]:
            del _REGISTRY[k]


def run_schedule(ctx, body):
    """Run body() (which calls into the library) under a fresh scheduler driven by ctx.
    Returns (status, value, sched): status in ok / hang / exc."""
    sched = Scheduler(ctx)
    try:
        with simulated_pool(sched):
            val = body()
        status = "ok"
    except Hang as e:
        status, val = "hang", str(e)
    except _Abort:
        status, val = "hang", str(sched.hang)
    except BaseException as e:  # noqa: BLE001
        status, val = "exc", e
    finally:
        sched.abort()
    if sched.hang is not None and status == "ok":
        status, val = "hang", str(sched.hang)
    return status, val, sched
