"""Runner: tiers, seeds, sharding, evidence, replay files, known findings, VIOLATION lines.

Usage (through /verif/check which fixes the environment):
    ./check C09 --tier quick
    ./check C09 --tier thorough
    ./check C09 --replay replays/C09/<hash>.json

Exit codes: 0 property held on everything explored (or only listed known findings were seen);
1 a violation was found (a `VIOLATION property=<id> replay=<path>` line is printed);
2 harness error (printed as HARNESS-ERROR, never as VIOLATION).
"""

from __future__ import annotations

import argparse
import hashlib
import importlib
import json
import multiprocessing as mp
import os
import subprocess
import sys
import time
import traceback
from pathlib import Path

ROOT = Path(__file__).resolve().parent.parent
# Seed trials only (par_seeds.sh): a scratch worktree of /repo with a seeded change applied and a
# scratch directory for its replays/evidence, so that several seeds can be tried in parallel
# without touching /repo or the committed evidence.  Registered commands never set these.
REPO = os.environ.get("VERIF_SCRATCH_REPO", "/repo")
OUT = Path(os.environ.get("VERIF_SCRATCH_OUT", str(ROOT)))
N_WORKERS = min(16, os.cpu_count() or 1)


class HarnessError(Exception):
    """Raised for failures of the machinery itself (never reported as a violation)."""


def _jsonable(obj):
    import numpy as np

    if isinstance(obj, dict):
        return {str(k): _jsonable(v) for k, v in obj.items()}
    if isinstance(obj, (list, tuple, set, frozenset)):
        return [_jsonable(v) for v in obj]
    if isinstance(obj, np.ndarray):
        return _jsonable(obj.tolist())
    if isinstance(obj, (np.bool_,)):
        return bool(obj)
    if isinstance(obj, np.integer):
        return int(obj)
    if isinstance(obj, (float, np.floating)):
        f = float(obj)
        if f != f:
            return "nan"
        if f in (float("inf"), float("-inf")):
            return "inf" if f > 0 else "-inf"
        return f
    if isinstance(obj, (str, int, bool)) or obj is None:
        return obj
    if isinstance(obj, complex):
        return [obj.real, obj.imag]
    return repr(obj)


def canon(obj) -> str:
    return json.dumps(_jsonable(obj), sort_keys=True, separators=(",", ":"))


def assert_bound_to_repo():
    import mici

    if not mici.__file__.startswith(REPO + "/src/"):
        raise HarnessError(f"mici imported from {mici.__file__}, not {REPO}/src")


# --------------------------------------------------------------------------------------
# parallel map over shards (fork; each shard returns a plain dict)
# --------------------------------------------------------------------------------------


def _shard_entry(args):
    modname, funcname, shard = args
    try:
        mod = importlib.import_module(modname)
        return ("ok", getattr(mod, funcname)(shard))
    except Exception:  # noqa: BLE001
        return ("err", traceback.format_exc())


class WatchdogTimeout(Exception):
    """Raised by run_with_alarm when the callee does not return in time."""


def run_with_alarm(seconds, fn, *a, **kw):
    """Call fn under a SIGALRM watchdog (main thread of a worker process only)."""
    import signal

    # on an overloaded machine (several checks at once) everything is slower by about
    # load / cores: the watchdog budget grows with it so that slowness is not reported as a hang
    try:
        seconds = seconds * max(1.0, os.getloadavg()[0] / (os.cpu_count() or 1))
    except OSError:
        pass

    def handler(signum, frame):
        raise WatchdogTimeout(f"no return within {seconds:.0f} s")

    old = signal.signal(signal.SIGALRM, handler)
    signal.setitimer(signal.ITIMER_REAL, seconds)
    try:
        return fn(*a, **kw)
    finally:
        signal.setitimer(signal.ITIMER_REAL, 0)
        signal.signal(signal.SIGALRM, old)


def pmap(modname: str, funcname: str, shards: list, workers: int | None = None):
    """Run `modname.funcname(shard)` for every shard, in parallel; order preserved."""
    workers = workers or N_WORKERS
    jobs = [(modname, funcname, s) for s in shards]
    if workers <= 1 or len(shards) <= 1 or os.environ.get("VERIF_SERIAL"):
        results = [_shard_entry(j) for j in jobs]
    else:
        # ProcessPoolExecutor workers are not daemonic, so checks that start the library's own
        # process pool (C13-C15) can run inside a shard
        from concurrent.futures import ProcessPoolExecutor

        ctx = mp.get_context("fork")
        limit = float(os.environ.get("VERIF_SHARD_TIMEOUT", "7200"))
        pool = ProcessPoolExecutor(min(workers, len(shards)), mp_context=ctx)
        try:
            results = list(pool.map(_shard_entry, jobs, chunksize=1, timeout=limit))
        except TimeoutError as e:
            for proc in list(getattr(pool, "_processes", {}).values()):
                proc.kill()
            pool.shutdown(wait=False, cancel_futures=True)
            raise HarnessError(f"shards of {modname}.{funcname} did not finish within "
                               f"{limit} s") from e
        pool.shutdown()
    out = []
    for (status, val), shard in zip(results, shards):
        if status == "err":
            raise HarnessError(f"shard {shard!r} of {modname}.{funcname} crashed:\n{val}")
        out.append(val)
    return out


# --------------------------------------------------------------------------------------
# result accumulation
# --------------------------------------------------------------------------------------


class Acc:
    """Accumulator a shard fills in and returns (as a dict) to the parent."""

    MAX_VIOL_PER_KEY = 2
    MAX_SAMPLES = 3

    def __init__(self):
        self.counts: dict[str, int] = {}
        self.viol: dict[str, list] = {}
        self.viol_total = 0
        self.samples: list = []
        self.outcomes: set = set()
        self.notes: dict[str, object] = {}

    def count(self, name: str, n: int = 1):
        self.counts[name] = self.counts.get(name, 0) + n

    def outcome(self, key):
        if len(self.outcomes) < 200000:
            self.outcomes.add(key if isinstance(key, (str, int, tuple)) else canon(key))

    def sample(self, case):
        if len(self.samples) < self.MAX_SAMPLES:
            self.samples.append(_jsonable(case))

    def violation(self, *, driver, config, fields, kind, observed=None, expected=None, **extra):
        """Record a violation. `fields` are the discrete fields known findings match on."""
        self.viol_total += 1
        fields = dict(fields)
        fields.setdefault("kind", kind)
        fields.setdefault("driver", driver)
        key = canon(fields)
        lst = self.viol.setdefault(key, [])
        if len(lst) < self.MAX_VIOL_PER_KEY:
            rec = {
                "driver": driver,
                "config": _jsonable(config),
                "kind": kind,
                "fields": _jsonable(fields),
                "observed": _jsonable(observed),
                "expected": _jsonable(expected),
            }
            rec.update({k: _jsonable(v) for k, v in extra.items()})
            lst.append(rec)

    def dump(self) -> dict:
        return {
            "counts": self.counts,
            "viol": self.viol,
            "viol_total": self.viol_total,
            "samples": self.samples,
            "outcomes": sorted(self.outcomes, key=repr),
            "notes": self.notes,
        }

    def merge(self, d: dict):
        for k, v in d["counts"].items():
            self.counts[k] = self.counts.get(k, 0) + v
        for k, lst in d["viol"].items():
            mine = self.viol.setdefault(k, [])
            for rec in lst:
                if len(mine) < self.MAX_VIOL_PER_KEY:
                    mine.append(rec)
        self.viol_total += d["viol_total"]
        for s in d["samples"]:
            if len(self.samples) < self.MAX_SAMPLES:
                self.samples.append(s)
        for o in d["outcomes"]:
            if len(self.outcomes) < 200000:
                self.outcomes.add(tuple(o) if isinstance(o, list) else o)
        for k, v in d["notes"].items():
            if isinstance(v, (int, float)) and isinstance(self.notes.get(k), (int, float)):
                self.notes[k] = max(self.notes[k], v)
            else:
                self.notes.setdefault(k, v)


# --------------------------------------------------------------------------------------
# known findings
# --------------------------------------------------------------------------------------


def load_known_findings(prop: str):
    path = ROOT / "known_findings.json"
    if not path.exists():
        return []
    data = json.loads(path.read_text())
    return [e for e in data.get("open", []) if e["property"] == prop]


def match_known(fields: dict, entries: list):
    for e in entries:
        if all(_jsonable(fields.get(k)) == v for k, v in e["match"].items()):
            return e
    return None


# --------------------------------------------------------------------------------------
# main
# --------------------------------------------------------------------------------------

LEVELS = {
    "C01": "model_checking", "C02": "exploration", "C03": "exploration", "C04": "exploration",
    "C05": "exploration", "C06": "exploration", "C07": "exploration", "C08": "exploration",
    "C09": "model_checking", "C10": "exploration", "C11": "exploration",
    "C12": "fault_enumeration", "C13": "exploration", "C14": "model_checking",
    "C15": "fault_enumeration", "C16": "model_checking", "C17": "exploration",
    "C18": "model_checking", "C19": "model_checking", "C20": "exploration",
}


def write_replay(prop: str, seed: int, rec: dict) -> Path:
    body = {"property": prop, "seed": seed}
    body.update(rec)
    text = json.dumps(body, indent=1, sort_keys=True)
    h = hashlib.sha1(canon(body).encode()).hexdigest()[:16]
    d = OUT / "replays" / prop
    d.mkdir(parents=True, exist_ok=True)
    p = d / f"{h}.json"
    p.write_text(text)
    return p


def confirm_replay(prop: str, path: Path) -> bool:
    """Re-execute a recorded violation in a fresh interpreter; True iff it reproduces."""
    r = subprocess.run(
        [str(ROOT / "check"), prop, "--replay", str(path), "--quiet"],
        capture_output=True, text=True, timeout=1800, check=False,
    )
    if r.returncode == 1:
        return True
    if r.returncode == 0:
        return False
    raise HarnessError(f"replay of {path} crashed (exit {r.returncode}):\n{r.stdout}\n{r.stderr}")


def main(argv=None):
    ap = argparse.ArgumentParser()
    ap.add_argument("prop")
    ap.add_argument("--tier", default=os.environ.get("VERIF_TIER", "quick"),
                    choices=["quick", "thorough"])
    ap.add_argument("--replay", default=None)
    ap.add_argument("--quiet", action="store_true")
    ap.add_argument("--groups", action="store_true", help="print every violation group")
    ap.add_argument("--no-confirm", action="store_true",
                    help="skip fresh-interpreter confirmation of violations (debugging)")
    args = ap.parse_args(argv)
    prop = args.prop.upper()
    try:
        seed = int(os.environ.get("VERIF_SEED", "0"))
    except ValueError:
        seed = 0
    try:
        assert_bound_to_repo()
        mod = importlib.import_module(f"mc.props.{prop.lower()}")
        if args.replay:
            rec = json.loads(Path(args.replay).read_text())
            reproduced, detail = mod.replay(rec)
            if not args.quiet:
                print(json.dumps(_jsonable(detail), indent=1, sort_keys=True))
                print("REPRODUCED" if reproduced else "NOT-REPRODUCED")
            return 1 if reproduced else 0
        t0 = time.time()
        acc = Acc()
        # replay files of earlier runs are stale: start from an empty directory
        rdir = OUT / "replays" / prop
        if rdir.exists():
            for old_file in rdir.glob("*.json"):
                old_file.unlink()
        cov, assumptions = mod.run(args.tier, seed, acc)
        wall = time.time() - t0
        # ---- classify violations
        known = load_known_findings(prop)
        new_groups, known_hits = [], {}
        for key, recs in sorted(acc.viol.items()):
            fields = recs[0]["fields"]
            e = match_known(fields, known)
            if e is not None:
                known_hits.setdefault(e["key"], (e, 0))
                known_hits[e["key"]] = (e, known_hits[e["key"]][1] + 1)
            else:
                new_groups.append((key, recs))
        if args.groups:
            for key, recs in new_groups:
                r = recs[0]
                print("GROUP", key, "| cfg:", canon(r["config"])[:300], "| obs:",
                      canon(r["observed"])[:120], "| exp:", canon(r["expected"])[:120])
        reported = []
        for key, recs in new_groups[:40]:
            path = write_replay(prop, seed, recs[0])
            if recs[0].get("no_confirm"):
                # observed on the real process pool (OS scheduling cannot be replayed): the
                # check itself re-ran the case and saw it again before recording it
                reported.append(path)
                continue
            if not args.no_confirm and not confirm_replay(prop, path):
                raise HarnessError(f"violation {path} did not reproduce in a fresh interpreter")
            reported.append(path)
        # ---- evidence
        level = LEVELS[prop]
        coverage = dict(cov)
        coverage.setdefault("samples", acc.samples)
        coverage["counts"] = acc.counts
        coverage["distinct_outcomes"] = len(acc.outcomes)
        coverage["known_findings_reported"] = sorted(known_hits)
        coverage["violation_groups"] = len(acc.viol)
        coverage["notes"] = _jsonable(acc.notes)
        if len(acc.outcomes) >= 200000:
            # the set of distinct outcomes is kept in memory and capped: the reported number is
            # then a lower bound (counted conservatively), not the exact count
            coverage["distinct_nontrivial_is_lower_bound"] = True
        ev = {
            "property_id": prop, "tier": args.tier, "seed": seed, "level": level,
            "coverage": _jsonable(coverage), "assumptions": assumptions,
            "wall_s": round(wall, 2), "violations": len(new_groups),
        }
        (OUT / "evidence").mkdir(exist_ok=True, parents=True)
        (OUT / "evidence" / f"{prop}.json").write_text(json.dumps(ev, indent=1, sort_keys=True))
        for e, n in known_hits.values():
            print(f"KNOWN-FINDING: property={prop} {e['description']} [{n} case group(s)]")
        summary = {k: coverage[k] for k in coverage
                   if k in ("states", "transitions", "evaluations", "distinct_nontrivial",
                            "exhaustive", "distinct_outcomes")}
        print(f"{prop} tier={args.tier} seed={seed} wall={wall:.1f}s {summary} "
              f"violations={len(new_groups)}")
        if reported:
            for p in reported:
                print(f"VIOLATION property={prop} replay={p}")
            return 1
        return 0
    except HarnessError as e:
        print(f"HARNESS-ERROR property={prop}: {e}")
        return 2
    except Exception:  # noqa: BLE001
        print(f"HARNESS-ERROR property={prop}: unexpected exception\n{traceback.format_exc()}")
        return 2


if __name__ == "__main__":
    sys.exit(main())
