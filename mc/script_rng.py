"""Scripted stand-ins for numpy.random.Generator whose every draw is an E1 choice point.

``ChoiceRng`` is used where the *distribution* over the random draws matters (C01): a
``uniform()`` draw is returned as a token; comparing the token with a probability ``p`` is a
weighted binary choice (p, 1-p); ``np.log(token)`` (slice level) is a choice among the finitely many
cells into which the supplied thresholds cut (-inf, 0), weighted by cell length in u-space.

``StreamRng`` replays a fixed list of values (used where runs only have to be comparable).
"""

from __future__ import annotations

import math

import numpy as np


def _as_float(p):
    if hasattr(p, "log_val"):  # LogRepFloat
        lv = p.log_val
        if lv != lv:
            return float("nan")
        return math.exp(lv) if lv < 700 else float("inf")
    return float(p)


class _UniformToken:
    __slots__ = ("rng",)

    def __init__(self, rng):
        self.rng = rng

    def __lt__(self, p):
        pf = _as_float(p)
        self.rng.n_compare += 1
        if pf != pf:  # NaN: every comparison with NaN is False
            return False
        if pf >= 1.0:
            return True
        if pf <= 0.0:
            return False
        return self.rng.ctx.choose((pf, 1.0 - pf), "u<p") == 0

    def __gt__(self, p):  # p > token  is evaluated as token.__lt__ only if p's type defers
        return not self.__lt__(p)

    def log(self):
        rng = self.rng
        ts = sorted({t for t in rng.log_u_thresholds if t < 0.0 and t > -math.inf})
        edges_u = [0.0] + [math.exp(t) for t in ts] + [1.0]
        weights = [edges_u[i + 1] - edges_u[i] for i in range(len(edges_u) - 1)]
        reps = []
        for i in range(len(weights)):
            if i == 0:
                reps.append((ts[0] - 1.0) if ts else -1.0)
            else:
                lo = ts[i - 1]
                hi = ts[i] if i < len(ts) else 0.0
                reps.append(0.5 * (lo + hi))
        c = rng.ctx.choose(weights, "log_u cell")
        return reps[c]


class ChoiceRng:
    """Generator stand-in for E1 exploration of a transition's internal randomness."""

    def __init__(self, ctx, log_u_thresholds=()):
        self.ctx = ctx
        self.log_u_thresholds = list(log_u_thresholds)
        self.n_compare = 0

    def uniform(self, *args, **kwargs):
        if args or kwargs:
            raise TypeError("ChoiceRng.uniform only models uniform() on [0, 1)")
        return _UniformToken(self)

    def integers(self, low, high=None, **kwargs):
        if kwargs:
            raise TypeError("ChoiceRng.integers: unsupported keyword")
        if high is None:
            low, high = 0, low
        return int(low) + self.ctx.choose(int(high) - int(low), "integers")


class StreamRng:
    """Deterministic stream: uniforms and normals come from fixed cyclic tables."""

    def __init__(self, uniforms=(0.37, 0.81, 0.12, 0.55, 0.93, 0.24, 0.68, 0.06),
                 normals=(0.3, -1.1, 0.7, 1.6, -0.4, 0.05, -0.9, 1.2, -1.7, 0.6)):
        self.u = list(uniforms)
        self.z = list(normals)
        self.iu = 0
        self.iz = 0
        self.calls = []

    def uniform(self, *args, **kwargs):
        v = self.u[self.iu % len(self.u)]
        self.iu += 1
        self.calls.append(("uniform",))
        return v

    def integers(self, low, high=None, **kwargs):
        if high is None:
            low, high = 0, low
        v = self.u[self.iu % len(self.u)]
        self.iu += 1
        self.calls.append(("integers", int(low), int(high)))
        return int(low) + int(v * (int(high) - int(low)))

    def _normals(self, shape):
        n = int(np.prod(shape)) if shape != () else 1
        vals = [self.z[(self.iz + i) % len(self.z)] for i in range(n)]
        self.iz += n
        return np.array(vals, dtype=float).reshape(shape) if shape != () else vals[0]

    def standard_normal(self, size=None, **kwargs):
        shape = () if size is None else (tuple(size) if not isinstance(size, int) else (size,))
        self.calls.append(("standard_normal", shape))
        return self._normals(shape)

    def normal(self, loc=0.0, scale=1.0, size=None):
        shape = () if size is None else (tuple(size) if not isinstance(size, int) else (size,))
        self.calls.append(("normal", shape))
        return loc + scale * self._normals(shape)


class BasisRng:
    """Generator whose normal draws return a prescribed vector (C08): the map z -> momentum."""

    def __init__(self, z):
        self.z = np.asarray(z, dtype=float)
        self.calls = []

    def _get(self, kind, size):
        shape = () if size is None else (tuple(size) if not isinstance(size, int) else (size,))
        self.calls.append((kind, shape))
        if shape != self.z.shape:
            raise ValueError(f"BasisRng: draw of shape {shape} but script has {self.z.shape}")
        return self.z.copy()

    def standard_normal(self, size=None, **kwargs):
        return self._get("standard_normal", size)

    def normal(self, loc=0.0, scale=1.0, size=None):
        return loc + scale * self._get("normal", size)
