"""Integrator zoo: JSON-able integrator recipes, compatibility, reference flows."""

from __future__ import annotations

import numpy as np

from mc import zoo
from mc.oracles import fd_grad4

FP_SOLVERS = ("direct", "steffensen")
PROJ_SOLVERS = ("newton", "quasi_newton", "newton_line_search")


def build_integrator(rec, system, step_size):
    from mici import integrators as I, solvers as S

    kind = rec[0]
    if kind == "leapfrog":
        return I.LeapfrogIntegrator(system, step_size)
    if kind == "symcomp":
        _, coeffs, h1_first = rec
        return I.SymmetricCompositionIntegrator(system, tuple(coeffs), step_size=step_size,
                                                initial_h1_flow_step=h1_first)
    if kind in ("bcss2", "bcss3", "bcss4"):
        cls = {"bcss2": I.BCSSTwoStageIntegrator, "bcss3": I.BCSSThreeStageIntegrator,
               "bcss4": I.BCSSFourStageIntegrator}[kind]
        return cls(system, step_size)
    if kind in ("implicit_leapfrog", "implicit_midpoint"):
        _, solver, tight = rec
        fp = {"direct": S.solve_fixed_point_direct,
              "steffensen": S.solve_fixed_point_steffensen}[solver]
        cls = I.ImplicitLeapfrogIntegrator if kind == "implicit_leapfrog" \
            else I.ImplicitMidpointIntegrator
        kw = {}
        if tight:
            kw = dict(reverse_check_tol=1e-9,
                      fixed_point_solver_kwargs={"convergence_tol": 1e-13, "max_iters": 500})
        return cls(system, step_size, fixed_point_solver=fp, **kw)
    if kind == "constrained_leapfrog":
        _, solver, n_inner, tight = rec[:4]
        extra = rec[4] if len(rec) > 4 else {}
        ps = {"newton": S.solve_projection_onto_manifold_newton,
              "quasi_newton": S.solve_projection_onto_manifold_quasi_newton,
              "newton_line_search": S.solve_projection_onto_manifold_newton_with_line_search}[
            solver]
        kw = {}
        pkw = dict(extra)
        if tight:
            kw["reverse_check_tol"] = 1e-9
            pkw.setdefault("constraint_tol", 1e-13)
            pkw.setdefault("position_tol", 1e-12)
            pkw.setdefault("max_iters", 200)
        return I.ConstrainedLeapfrogIntegrator(system, step_size, n_inner_step=n_inner,
                                               projection_solver=ps,
                                               projection_solver_kwargs=pkw, **kw)
    raise KeyError(kind)


def tractable_recipes(tier):
    out = [["leapfrog"], ["bcss2"], ["bcss3"], ["bcss4"]]
    alpha = [0.1, 0.2, 0.3, 0.4]
    # S=2: one free coeff; S=3: two; S=4: three; S=5: four
    for a in alpha:
        for h1 in (True, False):
            out.append(["symcomp", [a], h1])
    combos3 = [(0.1, 0.3), (0.2, 0.4), (0.3, 0.2)] if tier == "quick" else \
        [(a, b) for a in alpha for b in alpha]
    for c in combos3:
        for h1 in (True, False):
            out.append(["symcomp", list(c), h1])
    for c in ([(0.1, 0.2, 0.3)] if tier == "quick" else [(0.1, 0.2, 0.3), (0.2, 0.3, 0.1),
                                                            (0.3, 0.4, 0.1), (0.4, 0.1, 0.2)]):
        for h1 in (True, False):
            out.append(["symcomp", list(c), h1])
    out.append(["symcomp", [0.1, 0.2, 0.1, 0.3], True])
    out.append(["symcomp", [], True])  # S = 1: leapfrog
    return out


def implicit_recipes(tight=True):
    return [[k, s, tight] for k in ("implicit_leapfrog", "implicit_midpoint") for s in FP_SOLVERS]


def constrained_recipes(tight=True, n_inners=(1, 2, 3)):
    return [["constrained_leapfrog", s, n, tight] for s in PROJ_SOLVERS for n in n_inners]


def family_of(rec):
    k = rec[0]
    if k in ("leapfrog", "symcomp", "bcss2", "bcss3", "bcss4"):
        return "tractable"
    if k in ("implicit_leapfrog", "implicit_midpoint"):
        return k
    return "constrained"


# ----------------------------------------------------------------------------------------------
# reference flows of the documented Hamiltonian (independent of the library)
# ----------------------------------------------------------------------------------------------


def ref_flow(case, q, p, t, rtol=1e-11):
    """Exact (to rtol) flow of the reference Hamiltonian of `case` over time t from (q, p).
    Unconstrained: Hamilton's equations with 4th-order finite-difference gradients of h_ref.
    Constrained: index-1 reduction with the multiplier solved from the second derivative of the
    constraint."""
    from scipy.integrate import solve_ivp

    d = case.d
    con = case.constraint

    if con is None:
        def rhs(_t, z):
            qq, pp = z[:d], z[d:]
            gq = fd_grad4(lambda x: case.h1_ref(x) + case.h2_ref(x, pp), qq)
            gp = fd_grad4(lambda x: case.h2_ref(qq, x), pp)
            return np.concatenate([gp, -gq])
    else:
        def rhs(_t, z):
            qq, pp = z[:d], z[d:]
            Mi = np.linalg.inv(case.metric_ref(qq))
            v = Mi @ pp
            gq = fd_grad4(lambda x: case.h1_ref(x) + case.h2_ref(x, pp), qq)
            J = con.jac(qq)
            Hs = con.hess(qq)
            G = J @ Mi @ J.T
            curv = np.einsum("ijk,j,k->i", Hs, v, v)
            lam = np.linalg.solve(G, -J @ Mi @ gq + curv)
            return np.concatenate([v, -gq - J.T @ lam])

    sol = solve_ivp(rhs, (0.0, t), np.concatenate([q, p]), method="DOP853", rtol=rtol,
                    atol=1e-13)
    if not sol.success:
        raise RuntimeError("reference flow failed: " + sol.message)
    z = sol.y[:, -1]
    return z[:d], z[d:]


def loglog_slope(eps, errs):
    return float(np.polyfit(np.log(np.asarray(eps)), np.log(np.asarray(errs)), 1)[0])
