"""Independent references: finite differences, dense projections, reference flows."""

from __future__ import annotations

import numpy as np


def fd_grad(f, x, h=1e-5):
    """Central finite-difference derivative of f (array valued) wrt vector x; last axis = x."""
    x = np.array(x, dtype=float)
    f0 = np.asarray(f(x), dtype=float)
    out = np.zeros(f0.shape + x.shape)
    for k in range(x.size):
        e = np.zeros_like(x)
        e[k] = h
        out[..., k] = (np.asarray(f(x + e), dtype=float) - np.asarray(f(x - e), dtype=float)) / (
            2 * h)
    return out


def fd_grad4(f, x, h=1e-3):
    """Fourth-order central differences."""
    x = np.array(x, dtype=float)
    f0 = np.asarray(f(x), dtype=float)
    out = np.zeros(f0.shape + x.shape)
    for k in range(x.size):
        e = np.zeros_like(x)
        e[k] = h
        out[..., k] = (
            -np.asarray(f(x + 2 * e)) + 8 * np.asarray(f(x + e))
            - 8 * np.asarray(f(x - e)) + np.asarray(f(x - 2 * e))
        ) / (12 * h)
    return out


def close(a, b, rtol, atol):
    a = np.asarray(a, dtype=float)
    b = np.asarray(b, dtype=float)
    if a.shape != b.shape:
        return False
    if not (np.all(np.isfinite(a)) and np.all(np.isfinite(b))):
        return False
    scale = max(1.0, float(np.max(np.abs(b))) if b.size else 1.0)
    return bool(np.all(np.abs(a - b) <= atol * scale + rtol * np.abs(b)))


def maxerr(a, b):
    a = np.asarray(a, dtype=float)
    b = np.asarray(b, dtype=float)
    if a.shape != b.shape:
        return float("inf")
    if a.size == 0:
        return 0.0
    d = np.abs(a - b)
    return float(np.max(d)) if np.all(np.isfinite(d)) else float("inf")
