"""E2 - explicit-state breadth-first search over operation histories of real objects.

A state is the history of operations that reaches it; ``build(hist)`` constructs fresh real objects
and replays the history (live objects do not deep-copy faithfully).  A canonical form of the built
objects is hashed for deduplication; the invariant is evaluated in every state reached, i.e. after
every transition, including transitions into already-seen states.
"""

from __future__ import annotations

from collections import deque


def bfs(build, enabled, canon, invariant, max_depth, max_states=None, invariant_new_only=False):
    """
    build(hist) -> world            (fresh objects, history replayed; may raise -> reported)
    enabled(world, hist) -> list of operations (JSON-able) applicable in that state
    canon(world) -> hashable
    invariant(world, hist) -> None  (records violations itself)
    Returns dict(states, transitions, max_depth, capped, frontier_max).
    """
    w0 = build([])
    k0 = canon(w0)  # canonical form is taken before the invariant (which may populate caches)
    invariant(w0, [])
    seen = {k0}
    frontier = deque([[]])
    transitions = 0
    deepest = 0
    frontier_max = 1
    capped = False
    while frontier:
        hist = frontier.popleft()
        if len(hist) >= max_depth:
            continue
        world = build(hist)
        for op in enabled(world, hist):
            nh = hist + [op]
            w = build(nh)
            transitions += 1
            if w is None:  # the operation itself failed and was reported by build
                continue
            k = canon(w)
            # with invariant_new_only the invariant is evaluated once per distinct canonical
            # state (sound when the canonical form determines the invariant's outcome)
            if not invariant_new_only or k not in seen:
                invariant(w, nh)
            if k not in seen:
                if max_states is not None and len(seen) >= max_states:
                    capped = True
                    continue
                seen.add(k)
                frontier.append(nh)
                deepest = max(deepest, len(nh))
                frontier_max = max(frontier_max, len(frontier))
    return {"states": len(seen), "transitions": transitions, "max_depth": deepest,
            "capped": capped, "frontier_max": frontier_max}
