"""E1 - stateless depth-first exploration of choice points (CHESS style).

A driver is a function ``run(ctx)`` that calls ``ctx.choose(...)`` wherever the environment has a
choice.  ``explore`` replays a prefix of choices, takes the default option afterwards, records every
choice point passed and schedules every untaken alternative of non-zero weight as a new prefix.

* weights: option weights are probabilities; the weight of a leaf is the product along its path and
  the caller can require the leaves of one exploration to sum to one (``check_total``).
* deviation bound: a non-default choice is a deviation; with ``bound=k`` only leaves with at most k
  deviations are run (iterate 0, 1, 2, ... and report the last completed bound).
* divergence guard: an out-of-range or zero-weight choice while replaying a prefix is a hard error.
"""

from __future__ import annotations


class Divergence(Exception):
    pass


class Ctx:
    __slots__ = ("prefix", "pos", "trace", "weight", "deviations")

    def __init__(self, prefix):
        self.prefix = prefix
        self.pos = 0
        self.trace = []  # (n_options, weights|None, chosen, default, label)
        self.weight = 1.0
        self.deviations = 0

    def choose(self, weights_or_n, label=None, free=False):
        """free=True: alternatives at this point do not count as deviations (e.g. a forced
        context switch in schedule exploration)."""
        if isinstance(weights_or_n, int):
            n, w = weights_or_n, None
            default = 0
        else:
            w = list(weights_or_n)
            n = len(w)
            default = next((i for i, x in enumerate(w) if x > 0), None)
            if default is None:
                raise Divergence(f"no option with positive weight at {label}")
        if n <= 0:
            raise Divergence(f"empty choice at {label}")
        if self.pos < len(self.prefix):
            c = self.prefix[self.pos]
            if not (0 <= c < n) or (w is not None and not w[c] > 0):
                raise Divergence(
                    f"replayed choice {c} invalid at point {self.pos} ({label}): n={n} w={w}"
                )
        else:
            c = default
        self.trace.append((n, w, c, default, label, free))
        self.pos += 1
        self.weight *= (1.0 / n) if w is None else w[c]
        if c != default and not free:
            self.deviations += 1
        return c

    @property
    def choices(self):
        return [t[2] for t in self.trace]


def explore(run_fn, on_leaf, bound=None, max_leaves=None):
    """Enumerate all executions of ``run_fn``. Returns dict with leaves, points, total_weight,
    max_depth, capped."""
    stack = [[]]
    leaves = 0
    points = 0
    total_w = 0.0
    max_depth = 0
    capped = False
    while stack:
        prefix = stack.pop()
        ctx = Ctx(prefix)
        result = run_fn(ctx)
        if ctx.pos < len(prefix):
            raise Divergence(f"execution ended before prefix {prefix} was consumed "
                             f"(consumed {ctx.pos}; result {str(result)[:300]})")
        leaves += 1
        points += len(ctx.trace) - len(prefix) + (1 if prefix else 0)
        total_w += ctx.weight
        max_depth = max(max_depth, len(ctx.trace))
        on_leaf(ctx, result)
        if max_leaves is not None and leaves >= max_leaves:
            capped = bool(stack)
            break
        # deviations used by the prefix part are already fixed; alternatives past the prefix
        dev_before = 0
        for i, (n, w, c, default, _label, free) in enumerate(ctx.trace):
            if i >= len(prefix):
                for alt in range(n):
                    if alt == c:
                        continue
                    if w is not None and not w[alt] > 0:
                        continue
                    cost = dev_before + (1 if (alt != default and not free) else 0)
                    if bound is not None and cost > bound:
                        continue
                    stack.append([t[2] for t in ctx.trace[:i]] + [alt])
            if c != default and not free:
                dev_before += 1
    return {
        "leaves": leaves,
        "points": points,
        "total_weight": total_w,
        "max_depth": max_depth,
        "capped": capped,
    }
