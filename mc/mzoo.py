"""Matrix zoo: JSON-able recipes for every matrix class x constructor option x size, each with an
independent dense NumPy reference, plus expression trees over them.

A recipe is a nested list ``[op, *args]``; ``build(recipe, seed)`` returns ``(matrix, dense)`` where
``dense`` is computed from the raw parameters with NumPy only.
"""

from __future__ import annotations

import numpy as np
import scipy.linalg as sla

from mc.zoo import shift

# ----------------------------------------------------------------------------------------------
# raw parameter tables
# ----------------------------------------------------------------------------------------------


def P_spd(n, seed, k=0):
    s = shift(seed)
    B = np.array([[1.5 + 0.1 * s, 0.4, -0.3, 0.1], [0.4, 0.9 + 0.05 * k, 0.2, -0.2],
                  [-0.3, 0.2, 1.2 + 0.1 * k, 0.3], [0.1, -0.2, 0.3, 1.4]])
    return B[:n, :n].copy()


def P_sym(n, seed):
    s = shift(seed)
    B = np.array([[0.5, 1.1, -0.4, 0.2], [1.1, -0.8 + 0.1 * s, 0.3, 0.6], [-0.4, 0.3, 1.3, -0.9],
                  [0.2, 0.6, -0.9, -0.7]])
    return B[:n, :n].copy()


def P_sq(n, seed):
    s = shift(seed)
    B = np.array([[1.2, -0.7, 0.3, 0.4], [0.5 + 0.1 * s, 0.9, -1.1, 0.2], [-0.6, 0.2, 0.8, 1.0],
                  [0.3, -0.5, 0.4, -1.3]])
    return B[:n, :n].copy()


def P_tri(n, seed, lower=True):
    L = np.tril(P_sq(n, seed)) + np.eye(n) * 0.5
    return L if lower else L.T.copy()


def P_diag(n, seed, positive=True):
    s = shift(seed)
    d = np.array([0.6 + 0.05 * s, 1.7, 1.1, 0.9])[:n]
    if not positive:
        d = d * np.array([1, -1, 1, -1])[:n]
    return d.copy()


def P_rect(n, m, seed, k=0):
    s = shift(seed)
    R = np.array([[0.5, -0.25, 0.8, 0.3, -0.6], [0.75 + 0.1 * s, 0.5, -0.4, 0.9, 0.2],
                  [-0.5, 1.0, 0.3, -0.7, 0.4], [0.2, 0.6, -0.9, 0.5, 1.1]])
    R = np.roll(R, k, axis=1)
    return R[:n, :m].copy()


def P_orth(n, seed):
    q, _ = np.linalg.qr(P_sq(n, seed) + 0.3 * np.eye(n))
    return q


def softabs_dense(S, coeff):
    w, V = np.linalg.eigh(S)
    return (V * (w / np.tanh(w * coeff))) @ V.T


# ----------------------------------------------------------------------------------------------
# leaf constructors: name -> fn(n, seed) -> (matrix, dense)
# ----------------------------------------------------------------------------------------------


FORDER = [False]  # when set, leaf arrays are handed to the constructors in Fortran order


def _o(a):
    """A fresh copy of a parameter array in the memory order under test."""
    a = np.array(a)
    return np.asfortranarray(a) if (FORDER[0] and a.ndim == 2) else a


def _leaf(name, n, seed):
    from mici import matrices as M

    if name == "identity":
        return M.IdentityMatrix(n), np.eye(n)
    if name == "scaled_identity_pos":
        return M.ScaledIdentityMatrix(2.5, n), 2.5 * np.eye(n)
    if name == "scaled_identity_neg":
        return M.ScaledIdentityMatrix(-0.5, n), -0.5 * np.eye(n)
    if name == "pos_scaled_identity":
        return M.PositiveScaledIdentityMatrix(1.7, n), 1.7 * np.eye(n)
    if name == "diagonal":
        d = P_diag(n, seed, positive=False)
        return M.DiagonalMatrix(_o(d)), np.diag(d)
    if name == "pos_diagonal":
        d = P_diag(n, seed)
        return M.PositiveDiagonalMatrix(_o(d)), np.diag(d)
    if name in ("triangular_lower", "triangular_upper"):
        T = P_tri(n, seed, name.endswith("lower"))
        return M.TriangularMatrix(_o(T), lower=name.endswith("lower")), T
    if name == "triangular_lower_from_full":
        A = P_sq(n, seed)
        return M.TriangularMatrix(_o(A), lower=True), np.tril(A)
    if name == "triangular_upper_from_full":
        A = P_sq(n, seed)
        return M.TriangularMatrix(_o(A), lower=False), np.triu(A)
    if name in ("inverse_triangular_lower_from_full", "inverse_triangular_upper_from_full"):
        # the documented behaviour: entries in the other triangle of the array are ignored
        A = P_sq(n, seed) + 1.5 * np.eye(n)
        lower = "lower" in name
        return (M.InverseTriangularMatrix(_o(A), lower=lower),
                np.linalg.inv(np.tril(A) if lower else np.triu(A)))
    if name in ("inverse_triangular_lower", "inverse_triangular_upper"):
        T = P_tri(n, seed, name.endswith("lower"))
        return (M.InverseTriangularMatrix(_o(T), lower=name.endswith("lower")),
                np.linalg.inv(T))
    if name.startswith("tri_factored_definite"):
        # tri_factored_definite_{pos|neg}_{lower|upper}_{array|tri|invtri}
        _, _, _, sg, lo, how = name.split("_")
        sign = 1 if sg == "pos" else -1
        lower = lo == "lower"
        T = P_tri(n, seed, lower)
        if how == "array":
            m = M.TriangularFactoredDefiniteMatrix(_o(T), sign=sign, factor_is_lower=lower)
            return m, sign * T @ T.T
        if how == "tri":
            m = M.TriangularFactoredDefiniteMatrix(M.TriangularMatrix(_o(T), lower=lower),
                                                   sign=sign)
            return m, sign * T @ T.T
        Ti = np.linalg.inv(T)
        m = M.TriangularFactoredDefiniteMatrix(
            M.InverseTriangularMatrix(_o(T), lower=lower), sign=sign)
        return m, sign * Ti @ Ti.T
    if name.startswith("tri_factored_fromfull"):
        # tri_factored_fromfull_{pos|neg|pd}_{lower|upper}: the factor is handed over as a FULL
        # square array; documented: "only the lower- or upper-triangular elements are used"
        _, _, _, sg, lo = name.split("_")
        lower = lo == "lower"
        A = P_sq(n, seed) + 1.5 * np.eye(n)
        T = np.tril(A) if lower else np.triu(A)
        if sg == "pd":
            return (M.TriangularFactoredPositiveDefiniteMatrix(_o(A), factor_is_lower=lower),
                    T @ T.T)
        sign = 1 if sg == "pos" else -1
        return (M.TriangularFactoredDefiniteMatrix(_o(A), sign=sign, factor_is_lower=lower),
                sign * T @ T.T)
    if name in ("tri_factored_pd_lower", "tri_factored_pd_upper"):
        lower = name.endswith("lower")
        T = P_tri(n, seed, lower)
        return (M.TriangularFactoredPositiveDefiniteMatrix(_o(T), factor_is_lower=lower),
                T @ T.T)
    if name == "dense_definite_pos":
        B = P_spd(n, seed)
        return M.DenseDefiniteMatrix(_o(B), is_posdef=True), B
    if name == "dense_definite_neg":
        B = -P_spd(n, seed)
        return M.DenseDefiniteMatrix(_o(B), is_posdef=False), B
    if name == "dense_definite_neg_factor":
        B = -P_spd(n, seed)
        f = M.TriangularMatrix(np.linalg.cholesky(-B), lower=True)
        return M.DenseDefiniteMatrix(_o(B), factor=f, is_posdef=False), B
    if name == "dense_pd":
        B = P_spd(n, seed)
        return M.DensePositiveDefiniteMatrix(_o(B)), B
    if name == "dense_pd_factor":
        B = P_spd(n, seed)
        f = M.TriangularMatrix(np.linalg.cholesky(B), lower=True)
        return M.DensePositiveDefiniteMatrix(_o(B), factor=f), B
    if name == "dense_pd_product":
        R = P_rect(n, n + 1, seed)
        return M.DensePositiveDefiniteProductMatrix(_o(R)), R @ R.T
    if name == "dense_pd_product_inner":
        R = P_rect(n, n + 1, seed)
        D = P_diag(n + 1, seed)
        return (M.DensePositiveDefiniteProductMatrix(_o(R), M.PositiveDiagonalMatrix(_o(D))),
                R @ np.diag(D) @ R.T)
    if name == "dense_pd_product_matrix":
        R = P_rect(n, n + 1, seed)
        B = P_spd(n + 1, seed, 1)
        return (M.DensePositiveDefiniteProductMatrix(M.DenseRectangularMatrix(_o(R)),
                                                     M.DensePositiveDefiniteMatrix(_o(B))),
                R @ B @ R.T)
    if name == "dense_square":
        A = P_sq(n, seed)
        return M.DenseSquareMatrix(_o(A)), A
    if name == "dense_square_lu":
        A = P_sq(n, seed)
        return M.DenseSquareMatrix(_o(A), sla.lu_factor(A), False), A
    if name == "dense_square_lu_transposed":
        A = P_sq(n, seed)
        return M.DenseSquareMatrix(_o(A), sla.lu_factor(A.T), True), A
    if name == "inverse_lu":
        A = P_sq(n, seed)
        return (M.InverseLUFactoredSquareMatrix(_o(A), sla.lu_factor(A),
                                                inv_lu_transposed=False), np.linalg.inv(A))
    if name == "dense_symmetric":
        S = P_sym(n, seed)
        return M.DenseSymmetricMatrix(_o(S)), S
    if name == "dense_symmetric_eig":
        S = P_sym(n, seed)
        w, V = np.linalg.eigh(S)
        return M.DenseSymmetricMatrix(_o(S), _o(V), _o(w)), S
    if name == "dense_symmetric_eig_perm":
        # valid eigendecomposition supplied in a different order / sign than eigh returns
        S = P_sym(n, seed)
        w, V = np.linalg.eigh(S)
        V = -V[:, ::-1]
        return M.DenseSymmetricMatrix(_o(S), M.OrthogonalMatrix(_o(V)), _o(w[::-1])), S
    if name == "dense_symmetric_eigvec_only":
        # only one half of the optional eigendecomposition supplied (in a non-eigh order)
        S = P_sym(n, seed)
        w, V = np.linalg.eigh(S)
        return M.DenseSymmetricMatrix(_o(S), eigvec=-_o(V[:, ::-1])), S
    if name == "dense_symmetric_eigval_only":
        S = P_sym(n, seed)
        w, V = np.linalg.eigh(S)
        return M.DenseSymmetricMatrix(_o(S), eigval=_o(w[::-1])), S
    if name == "orthogonal":
        Q = P_orth(n, seed)
        return M.OrthogonalMatrix(_o(Q)), Q
    if name == "scaled_orthogonal":
        Q = P_orth(n, seed)
        return M.ScaledOrthogonalMatrix(-1.5, _o(Q)), -1.5 * Q
    if name == "eigendecomposed_symmetric":
        Q = P_orth(n, seed)
        w = P_diag(n, seed, positive=False)
        return M.EigendecomposedSymmetricMatrix(_o(Q), _o(w)), (Q * w) @ Q.T
    if name == "eigendecomposed_symmetric_orth":
        Q = P_orth(n, seed)
        w = P_diag(n, seed, positive=False)
        return (M.EigendecomposedSymmetricMatrix(M.OrthogonalMatrix(_o(Q)), _o(w)),
                (Q * w) @ Q.T)
    if name == "eigendecomposed_pd":
        Q = P_orth(n, seed)
        w = P_diag(n, seed)
        return M.EigendecomposedPositiveDefiniteMatrix(_o(Q), _o(w)), (Q * w) @ Q.T
    if name == "softabs":
        S = P_sym(n, seed)
        return M.SoftAbsRegularizedPositiveDefiniteMatrix(_o(S), 1.5), softabs_dense(S, 1.5)
    if name == "softabs_soft":
        S = P_sym(n, seed)
        return M.SoftAbsRegularizedPositiveDefiniteMatrix(_o(S), 0.5), softabs_dense(S, 0.5)
    raise KeyError(name)


SQUARE_LEAVES = [
    "identity", "scaled_identity_pos", "scaled_identity_neg", "pos_scaled_identity", "diagonal",
    "pos_diagonal", "triangular_lower", "triangular_upper", "triangular_lower_from_full",
    "inverse_triangular_lower", "inverse_triangular_upper", "triangular_upper_from_full",
    "inverse_triangular_lower_from_full", "inverse_triangular_upper_from_full",
    "tri_factored_definite_pos_lower_array", "tri_factored_definite_neg_lower_array",
    "tri_factored_definite_neg_upper_array", "tri_factored_definite_pos_upper_tri",
    "tri_factored_definite_neg_lower_invtri", "tri_factored_pd_lower", "tri_factored_pd_upper",
    "tri_factored_fromfull_pd_lower", "tri_factored_fromfull_neg_upper",
    "tri_factored_fromfull_pos_upper", "dense_definite_pos", "dense_definite_neg", "dense_definite_neg_factor", "dense_pd",
    "dense_pd_factor", "dense_pd_product", "dense_pd_product_inner", "dense_pd_product_matrix",
    "dense_square", "dense_square_lu", "dense_square_lu_transposed", "inverse_lu",
    "dense_symmetric", "dense_symmetric_eig", "dense_symmetric_eig_perm",
    "dense_symmetric_eigvec_only", "dense_symmetric_eigval_only", "orthogonal",
    "scaled_orthogonal", "eigendecomposed_symmetric", "eigendecomposed_symmetric_orth",
    "eigendecomposed_pd", "softabs", "softabs_soft",
]

PD_LEAVES = ["identity", "pos_scaled_identity", "pos_diagonal", "tri_factored_pd_lower",
             "tri_factored_pd_upper", "dense_pd", "dense_pd_factor", "dense_pd_product_inner",
             "eigendecomposed_pd", "softabs"]
SYM_LEAVES = PD_LEAVES + ["scaled_identity_neg", "diagonal", "dense_symmetric",
                          "dense_symmetric_eig", "eigendecomposed_symmetric",
                          "dense_definite_neg", "tri_factored_definite_neg_lower_array"]


# ----------------------------------------------------------------------------------------------
# recipes
# ----------------------------------------------------------------------------------------------


def build(rec, seed=0):
    """rec = [op, *args] -> (matrix, dense).  Raises whatever the library raises."""
    from mici import matrices as M

    op = rec[0]
    if op == "leaf":
        return _leaf(rec[1], rec[2], seed)
    if op == "leaf_f":  # same leaf, 2-D parameter arrays supplied in Fortran order
        FORDER[0] = True
        try:
            return _leaf(rec[1], rec[2], seed)
        finally:
            FORDER[0] = False
    if op == "rect":
        _, n, m, k = rec
        R = P_rect(n, m, seed, k)
        return M.DenseRectangularMatrix(R.copy()), R
    if op == "T":
        m, d = build(rec[1], seed)
        return m.T, d.T
    if op == "inv":
        m, d = build(rec[1], seed)
        return m.inv, np.linalg.inv(d)
    if op == "sqrt":
        m, d = build(rec[1], seed)
        s = m.sqrt
        sa = np.array(s.array)
        # any factor S with S S^T = parent is a valid square root; its dense value is taken
        # from the library only after that identity has been verified here
        if not np.allclose(sa @ sa.T, d, rtol=1e-9, atol=1e-10):
            raise SqrtMismatch(rec, sa @ sa.T, d)
        return s, sa
    if op == "neg":
        m, d = build(rec[1], seed)
        return -m, -d
    if op == "mul":
        m, d = build(rec[2], seed)
        return m * rec[1], d * rec[1]
    if op == "rmul":
        m, d = build(rec[2], seed)
        return rec[1] * m, rec[1] * d
    if op == "div":
        m, d = build(rec[2], seed)
        return m / rec[1], d / rec[1]
    if op == "matmul":
        a, da = build(rec[1], seed)
        b, db = build(rec[2], seed)
        return a @ b, da @ db
    if op in ("block_diag_square", "block_diag_symmetric", "block_diag_pd"):
        parts = [build(r, seed) for r in rec[1]]
        cls = {"block_diag_square": M.SquareBlockDiagonalMatrix,
               "block_diag_symmetric": M.SymmetricBlockDiagonalMatrix,
               "block_diag_pd": M.PositiveDefiniteBlockDiagonalMatrix}[op]
        return cls([p[0] for p in parts]), sla.block_diag(*[p[1] for p in parts])
    if op == "block_row":
        parts = [build(r, seed) for r in rec[1]]
        return M.BlockRowMatrix([p[0] for p in parts]), np.concatenate([p[1] for p in parts], 1)
    if op == "block_col":
        parts = [build(r, seed) for r in rec[1]]
        return (M.BlockColumnMatrix([p[0] for p in parts]),
                np.concatenate([p[1] for p in parts], 0))
    if op in ("low_rank_square", "low_rank_symmetric", "low_rank_pd"):
        # [op, sign, base_rec, rank, inner_rec|None, with_capacitance(bool), factor_as_array]
        _, sign, base_rec, rank, inner_rec, with_cap, as_array = rec
        base, dbase = build(base_rec, seed)
        n = dbase.shape[0]
        scale = 0.35 if sign == -1 else 1.0
        U = scale * P_rect(n, rank, seed)
        inner, dinner = (None, np.eye(rank)) if inner_rec is None else build(inner_rec, seed)
        if op == "low_rank_square":
            V = scale * P_rect(rank, n, seed, 1)
            dense = dbase + sign * U @ dinner @ V
            cap = None
            if with_cap:
                cap = M.DenseSquareMatrix(
                    np.linalg.inv(dinner) + sign * V @ np.linalg.solve(dbase, U))
            uf = U.copy() if as_array else M.DenseRectangularMatrix(U.copy())
            vf = V.copy() if as_array else M.DenseRectangularMatrix(V.copy())
            return M.SquareLowRankUpdateMatrix(uf, vf, base, inner, cap, sign), dense
        dense = dbase + sign * U @ dinner @ U.T
        capd = np.linalg.inv(dinner) + sign * U.T @ np.linalg.solve(dbase, U)
        uf = U.copy() if as_array else M.DenseRectangularMatrix(U.copy())
        if op == "low_rank_symmetric":
            cap = M.DenseSymmetricMatrix(capd) if with_cap else None
            return M.SymmetricLowRankUpdateMatrix(uf, base, inner, cap, sign), dense
        cap = M.DensePositiveDefiniteMatrix(capd) if with_cap else None
        return M.PositiveDefiniteLowRankUpdateMatrix(uf, base, inner, cap, sign), dense
    raise KeyError(op)


class SqrtMismatch(Exception):
    def __init__(self, rec, got, want):
        super().__init__(f"sqrt @ sqrt.T != parent for {rec}")
        self.rec, self.got, self.want = rec, got, want


def leaf_recipes(n, square_only=True):
    return [["leaf", name, n] for name in SQUARE_LEAVES]


def composite_recipes(n):
    """Composite constructors applied to leaves (total size n >= 2)."""
    out = []
    if n < 2:
        return out
    a, b = 1, n - 1
    out.append(["block_diag_square", [["leaf", "dense_square", a], ["leaf", "triangular_lower", b]]])
    out.append(["block_diag_square", [["leaf", "pos_diagonal", a], ["leaf", "inverse_lu", b]]])
    out.append(["block_diag_symmetric", [["leaf", "diagonal", a], ["leaf", "dense_symmetric", b]]])
    out.append(["block_diag_symmetric", [["leaf", "scaled_identity_neg", a],
                                          ["leaf", "eigendecomposed_pd", b]]])
    out.append(["block_diag_pd", [["leaf", "pos_scaled_identity", a], ["leaf", "dense_pd", b]]])
    out.append(["block_diag_pd", [["leaf", "tri_factored_pd_lower", a], ["leaf", "softabs", b]]])
    for sign in (1, -1):
        for inner in (None, ["leaf", "pos_diagonal", 1]):
            for cap in (False, True):
                out.append(["low_rank_pd", sign, ["leaf", "pos_diagonal", n], 1, inner, cap, True])
        out.append(["low_rank_pd", sign, ["leaf", "dense_pd", n], 1, None, False, False])
        out.append(["low_rank_symmetric", sign, ["leaf", "dense_symmetric", n], 1,
                    ["leaf", "scaled_identity_neg", 1], False, True])
        out.append(["low_rank_symmetric", sign, ["leaf", "diagonal", n], 1, None, True, False])
        out.append(["low_rank_square", sign, ["leaf", "dense_square", n], 1, None, False, True])
        out.append(["low_rank_square", sign, ["leaf", "triangular_lower", n], 1,
                    ["leaf", "scaled_identity_pos", 1], True, False])
    if n >= 3:
        # rank-2 updates: the capacitance matrix is a non-symmetric 2x2 matrix
        for sign in (1, -1):
            out.append(["low_rank_square", sign, ["leaf", "dense_square", n], 2,
                        ["leaf", "dense_square", 2], True, True])
            out.append(["low_rank_square", sign, ["leaf", "triangular_upper", n], 2,
                        ["leaf", "triangular_lower", 2], False, False])
        out.append(["low_rank_symmetric", 1, ["leaf", "dense_symmetric", n], 2,
                    ["leaf", "diagonal", 2], True, True])
        out.append(["low_rank_pd", -1, ["leaf", "tri_factored_pd_lower", n], 2,
                    ["leaf", "dense_pd", 2], False, True])
        out.append(["low_rank_pd", 1, ["leaf", "eigendecomposed_pd", n], 2, None, True, True])
    return out


def rect_recipes(n):
    out = [["rect", n, n + 1, 0], ["rect", n + 1, n, 1]]
    out.append(["block_row", [["leaf", "dense_square", n], ["rect", n, 1, 0]]])
    out.append(["block_col", [["leaf", "pos_diagonal", n], ["rect", 1, n, 1]]])
    return out


# ----------------------------------------------------------------------------------------------
# recording of caller-supplied arrays (harness process only)
# ----------------------------------------------------------------------------------------------

from contextlib import contextmanager  # noqa: E402


@contextmanager
def record_constructor_arrays():
    """While active, every ndarray passed (directly or inside a tuple/list) to a matrix
    constructor that is called from *outside* the library is appended to the yielded list."""
    from mici import matrices as M

    depth = [0]
    rec = []
    snaps = []
    rec_snaps = snaps
    originals = []

    def collect(x):
        if isinstance(x, np.ndarray):
            rec.append(x)
            snaps.append(x.copy())
        elif isinstance(x, (tuple, list)):
            for e in x:
                collect(e)

    def make(orig):
        def wrapper(self, *a, **k):
            if depth[0] == 0:
                for x in a:
                    collect(x)
                for x in k.values():
                    collect(x)
            depth[0] += 1
            try:
                return orig(self, *a, **k)
            finally:
                depth[0] -= 1
        return wrapper

    for name in dir(M):
        cls = getattr(M, name)
        if isinstance(cls, type) and issubclass(cls, M.Matrix) and "__init__" in cls.__dict__:
            originals.append((cls, cls.__dict__["__init__"]))
            setattr(cls, "__init__", make(cls.__dict__["__init__"]))
    RecList = type("RecList", (list,), {})
    out = RecList()
    out.snapshots = rec_snaps
    try:
        # `rec` is filled while the block runs; expose it together with the snapshots
        rec_holder = out
        rec_holder.arrays = rec
        yield rec_holder
    finally:
        for cls, orig in originals:
            setattr(cls, "__init__", orig)
