"""E4 - call-indexed fault / interrupt injector for user callbacks."""

from __future__ import annotations

import sys

import numpy as np


def solver_frame_active():
    f = sys._getframe(1)  # noqa: SLF001
    while f is not None:
        if f.f_code.co_name.startswith("solve_"):
            return True
        f = f.f_back
    return False


def _fill(val, x):
    if isinstance(val, np.ndarray):
        return np.full_like(val, x, dtype=float)
    if isinstance(val, tuple):
        return tuple(_fill(v, x) for v in val)
    if callable(val):
        return lambda *a, **k: _fill(val(*a, **k), x)
    return float(x)


def _fill_first(val, x):
    """Like _fill but only the first component of (the first) array becomes non-finite."""
    if isinstance(val, np.ndarray):
        out = np.array(val, dtype=float)
        if out.size:
            out.flat[0] = x
        return out
    if isinstance(val, tuple):
        return (_fill_first(val[0], x),) + tuple(val[1:])
    if callable(val):
        return lambda *a, **k: _fill_first(val(*a, **k), x)
    return float(x)


class FaultPlan:
    """Counts calls of named callbacks while `armed`; injects one fault at (name, k)."""

    def __init__(self, target=None, k=None, kind=None):
        self.target, self.k, self.kind = target, k, kind
        self.armed = False
        self.counts = {}
        self.fired = None  # (name, k, kind, in_solver)
        self.not_applicable = False
        self.in_solver_at = {}

    def wrap(self, name, fn):
        def wrapped(*a, **kw):
            if not self.armed:
                return fn(*a, **kw)
            idx = self.counts.get(name, 0)
            self.counts[name] = idx + 1
            insolver = solver_frame_active()
            self.in_solver_at[(name, idx)] = insolver
            if name == self.target and idx == self.k and self.fired is None:
                if self.kind in ("value_error", "linalg_error"):
                    if not insolver:
                        self.not_applicable = True
                        return self._post(name, fn(*a, **kw))
                    self.fired = (name, idx, self.kind, insolver)
                    if self.kind == "value_error":
                        raise ValueError("injected fault")
                    raise np.linalg.LinAlgError("injected fault")
                self.fired = (name, idx, self.kind, insolver)
                if self.kind in ("inf0", "nan0"):
                    return _fill_first(fn(*a, **kw), np.inf if self.kind == "inf0" else np.nan)
                x = {"nan": np.nan, "inf": np.inf, "-inf": -np.inf}[self.kind]
                return _fill(fn(*a, **kw), x)
            return self._post(name, fn(*a, **kw))
        return wrapped

    def _post(self, name, out):
        # closures returned by derivative functions are user code as well: count and fault them
        if callable(out):
            return self.wrap(name + ":closure", out)
        if isinstance(out, tuple) and out and callable(out[0]):
            return (self.wrap(name + ":closure", out[0]),) + tuple(out[1:])
        return out


VALUE_KINDS = ("nan", "inf", "-inf", "inf0", "nan0")
EXC_KINDS = ("value_error", "linalg_error")
