"""Shared finite alphabets: targets, metrics, constraints, states, systems, integrators.

Everything continuous used by the checks comes from here.  Hand-written derivatives are verified by
central finite differences in tests/test_zoo.py before any check trusts them.
"""

from __future__ import annotations

import itertools
import math

import numpy as np

SQ = (math.sqrt(2) - 1, math.sqrt(3) - 1, math.sqrt(5) - 2)


def shift(seed):
    return (seed % 8) / 8.0


# ----------------------------------------------------------------------------------------------
# targets: value, gradient, Hessian, Tressian (dense 3-tensor)
# ----------------------------------------------------------------------------------------------


def _A(d):
    A = np.array([[1.0, 0.3, -0.2], [0.3, 0.7, 0.1], [-0.2, 0.1, 1.3]])
    return A[:d, :d].copy()


class Target:
    def __init__(self, name, d):
        self.name, self.d = name, d
        self.A = _A(d)

    # -- quartic: 1/2 q'Aq + 1/4 sum q^4 + q0 q1^2
    def f(self, q):
        q = np.asarray(q, dtype=float)
        d = self.d
        if self.name == "quartic":
            v = 0.5 * q @ self.A @ q + 0.25 * np.sum(q**4)
            if d >= 2:
                v += q[0] * q[1] ** 2
            return v
        if self.name == "logcosh":
            v = np.sum(np.log(np.cosh(q)))
            if d >= 2:
                v += 0.5 * (q[1] - q[0] ** 2) ** 2
            return v
        if self.name == "gauss":
            return 0.5 * q @ self.A @ q
        raise ValueError(self.name)

    def grad(self, q):
        q = np.asarray(q, dtype=float)
        d = self.d
        if self.name == "quartic":
            g = self.A @ q + q**3
            if d >= 2:
                g[0] += q[1] ** 2
                g[1] += 2 * q[0] * q[1]
            return g
        if self.name == "logcosh":
            g = np.tanh(q)
            if d >= 2:
                r = q[1] - q[0] ** 2
                g[0] += -2 * q[0] * r
                g[1] += r
            return g
        return self.A @ q

    def hess(self, q):
        q = np.asarray(q, dtype=float)
        d = self.d
        if self.name == "quartic":
            H = self.A + np.diag(3 * q**2)
            if d >= 2:
                H[0, 1] += 2 * q[1]
                H[1, 0] += 2 * q[1]
                H[1, 1] += 2 * q[0]
            return H
        if self.name == "logcosh":
            H = np.diag(1.0 / np.cosh(q) ** 2)
            if d >= 2:
                r = q[1] - q[0] ** 2
                H[0, 0] += -2 * r + 4 * q[0] ** 2
                H[0, 1] += -2 * q[0]
                H[1, 0] += -2 * q[0]
                H[1, 1] += 1.0
            return H
        return self.A.copy()

    def tress(self, q):
        q = np.asarray(q, dtype=float)
        d = self.d
        T = np.zeros((d, d, d))
        if self.name == "quartic":
            for i in range(d):
                T[i, i, i] = 6 * q[i]
            if d >= 2:
                for idx in set(itertools.permutations((0, 1, 1))):
                    T[idx] += 2.0
        elif self.name == "logcosh":
            for i in range(d):
                T[i, i, i] = -2 * np.tanh(q[i]) / np.cosh(q[i]) ** 2
            if d >= 2:
                T[0, 0, 0] += 12 * q[0]
                for idx in set(itertools.permutations((0, 0, 1))):
                    T[idx] += -2.0
        return T

    # -- user-function conventions
    def grad_fn(self, conv):
        if conv == "plain":
            return lambda q: self.grad(q)
        return lambda q: (self.grad(q), self.f(q))

    def hess_fn(self, conv):
        if conv == "plain":
            return lambda q: self.hess(q)
        return lambda q: (self.hess(q), self.grad(q), self.f(q))

    def mtp_fn(self, conv):
        def mtp_of(q):
            T = self.tress(q)
            return lambda m: np.einsum("ij,ijk->k", m, T)

        if conv == "plain":
            return lambda q: mtp_of(q)
        return lambda q: (mtp_of(q), self.hess(q), self.grad(q), self.f(q))


def targets(d, names=("quartic", "logcosh", "gauss")):
    return [Target(n, d) for n in names]


# ----------------------------------------------------------------------------------------------
# constant metrics
# ----------------------------------------------------------------------------------------------


def spd(d, seed=0, k=0):
    s = shift(seed)
    B = np.array([[1.5 + 0.1 * s, 0.4, -0.3], [0.4, 0.9 + 0.05 * k, 0.2], [-0.3, 0.2, 1.2]])
    return B[:d, :d].copy()


def rect(d, r, seed=0):
    s = shift(seed)
    U = np.array([[0.5, -0.25], [0.75 + 0.1 * s, 0.5], [-0.5, 1.0]])
    return U[:d, :r].copy()


def softabs_dense(B, coeff):
    w, V = np.linalg.eigh(B)
    return (V * (w / np.tanh(w * coeff))) @ V.T


def constant_metrics(d, seed=0, include_implicit=True):
    """List of (name, factory, dense): factory() builds a fresh metric argument as accepted by the
    system constructors; dense is its dense array computed with plain NumPy (independent)."""
    from mici import matrices as M

    B = spd(d, seed)
    diag = np.array([0.6, 1.7, 1.1])[:d] + 0.05 * shift(seed)
    ev, evec = np.linalg.eigh(B)
    I = np.eye(d)
    out = []
    if include_implicit:
        out.append(("none", lambda: None, I))
        out.append(("identity_implicit", lambda: M.IdentityMatrix(), I))
    out += [
        ("identity", lambda: M.IdentityMatrix(d), I),
        ("pos_scaled_identity", lambda: M.PositiveScaledIdentityMatrix(1.7, d), 1.7 * I),
        ("pos_diagonal", lambda: M.PositiveDiagonalMatrix(diag.copy()), np.diag(diag)),
        ("array_1d", lambda: diag.copy(), np.diag(diag)),
        ("array_2d", lambda: B.copy(), B),
        ("dense_pd", lambda: M.DensePositiveDefiniteMatrix(B.copy()), B),
        ("tri_factored_lower", lambda: M.TriangularFactoredPositiveDefiniteMatrix(
            np.linalg.cholesky(B), factor_is_lower=True), B),
        ("tri_factored_upper", lambda: M.TriangularFactoredPositiveDefiniteMatrix(
            np.linalg.cholesky(B[::-1, ::-1])[::-1, ::-1].copy(), factor_is_lower=False), B),
        ("eigendecomposed_pd", lambda: M.EigendecomposedPositiveDefiniteMatrix(
            evec.copy(), ev.copy()), B),
        ("softabs", lambda: M.SoftAbsRegularizedPositiveDefiniteMatrix(B.copy(), 1.5),
         softabs_dense(B, 1.5)),
    ]
    if d >= 2:
        B1 = spd(d - 1, seed, 1)
        bd = np.zeros((d, d))
        bd[0, 0] = 1.3
        bd[1:, 1:] = B1
        out.append(("block_diag_pd", lambda: M.PositiveDefiniteBlockDiagonalMatrix(
            [M.PositiveScaledIdentityMatrix(1.3, 1),
             M.DensePositiveDefiniteMatrix(B1.copy())]), bd))
        U = rect(d, 1, seed)
        out.append(("low_rank_update", lambda: M.PositiveDefiniteLowRankUpdateMatrix(
            U.copy(), M.PositiveDiagonalMatrix(diag.copy())), np.diag(diag) + U @ U.T))
        K1 = np.array([[2.5]])
        out.append(("derived_low_rank_update_inner",
                    lambda: M.PositiveDefiniteLowRankUpdateMatrix(
                        U.copy(), M.PositiveDiagonalMatrix(diag.copy()),
                        M.DensePositiveDefiniteMatrix(K1.copy())),
                    np.diag(diag) + 2.5 * U @ U.T))
        out.append(("low_rank_downdate", lambda: M.PositiveDefiniteLowRankUpdateMatrix(
            0.4 * U, M.PositiveDiagonalMatrix(diag.copy() + 1.0), sign=-1),
            np.diag(diag + 1.0) - 0.16 * U @ U.T))
    # metrics DERIVED from a matrix that already holds lazily computed factors (histories: the
    # inverse of a dense matrix carries its factorisation; a matrix is used, then rescaled)
    Binv = np.linalg.inv(B)

    def _scaled_inv():
        return 0.25 * M.DensePositiveDefiniteMatrix(Binv.copy()).inv

    def _used_then_divided():
        m = M.DensePositiveDefiniteMatrix(B.copy())
        m.log_abs_det, m.sqrt, m.inv  # noqa: B018
        return m / 0.4

    def _diag_used_then_scaled():
        m = M.PositiveDiagonalMatrix(diag.copy())
        m.sqrt, m.inv, m.log_abs_det  # noqa: B018
        return 2.5 * m

    # legal but extreme scale (a metric in other units): heavy masses.  (A light metric, 1e-6,
    # was tried and dropped: the finite-difference and matrix-exponential oracles lose their
    # accuracy at frequencies of 1e3, which showed as alarms of the oracles, not of the code.)
    out += [("derived_heavy_identity", lambda: M.PositiveScaledIdentityMatrix(1e8, d), 1e8 * I)]
    def _inv_after_eig():
        m = M.DensePositiveDefiniteMatrix(Binv.copy())
        m.eigval, m.eigvec  # noqa: B018  (e.g. a condition number was inspected first)
        return m.inv

    out += [("derived_inv_after_eig", _inv_after_eig, B)]
    out += [("derived_scaled_inv_dense", _scaled_inv, 0.25 * B),
            ("derived_used_then_divided", _used_then_divided, B / 0.4),
            ("derived_diag_used_then_scaled", _diag_used_then_scaled, 2.5 * np.diag(diag))]
    if d == 2:
        R = np.array([[1.0, 0.5, -0.3], [0.2, 1.1, 0.7]])
        D = np.array([1.0, 2.0, 0.5])
        out.append(("dense_pd_product", lambda: M.DensePositiveDefiniteProductMatrix(
            R.copy(), M.PositiveDiagonalMatrix(D.copy())), R @ np.diag(D) @ R.T))
    return out


# ----------------------------------------------------------------------------------------------
# position dependent metrics (Riemannian families)
# ----------------------------------------------------------------------------------------------


class RiemannFamily:
    """kind in scalar, diagonal, cholesky, dense, softabs."""

    def __init__(self, kind, d, target, softabs_coeff=1.0):
        self.kind, self.d, self.target, self.softabs_coeff = kind, d, target, softabs_coeff

    # parameter function and its Jacobian tensor (param indices..., k)
    def param(self, q):
        q = np.asarray(q, dtype=float)
        d = self.d
        if self.kind == "scalar":
            return 1.0 + 0.5 * np.sum(q**2)
        if self.kind == "scalar_strong":
            return 1.0 + 4.0 * np.sum(q**2)
        if self.kind in ("diagonal_strong", "diagonal_strong9"):
            return 1.0 + (4.0 if self.kind == "diagonal_strong" else 9.0) * q**2
        if self.kind == "diagonal":
            return 1.0 + q**2 + 0.5 * np.roll(q, -1) ** 2
        if self.kind == "cholesky":
            L = np.zeros((d, d))
            for i in range(d):
                L[i, i] = 1.0 + 0.3 * q[i] ** 2
                for j in range(i):
                    L[i, j] = 0.2 * q[j] + 0.1 * q[i] * q[j]
            return L
        if self.kind == "dense":
            return np.eye(d) * (1.0 + 0.5 * np.sum(q**2)) + 0.4 * np.outer(q, q) + 0.1 * _A(d)
        if self.kind == "softabs":
            return self.target.hess(q)
        raise ValueError(self.kind)

    def dparam(self, q):
        q = np.asarray(q, dtype=float)
        d = self.d
        if self.kind == "scalar":
            return q.copy()  # shape (k,)
        if self.kind == "scalar_strong":
            return 8.0 * q
        if self.kind in ("diagonal_strong", "diagonal_strong9"):
            return np.diag((8.0 if self.kind == "diagonal_strong" else 18.0) * q)
        if self.kind == "diagonal":
            J = np.zeros((d, d))
            for i in range(d):
                J[i, i] += 2 * q[i]
                J[i, (i + 1) % d] += q[(i + 1) % d]
            return J
        if self.kind == "cholesky":
            T = np.zeros((d, d, d))
            for i in range(d):
                T[i, i, i] = 0.6 * q[i]
                for j in range(i):
                    T[i, j, j] += 0.2 + 0.1 * q[i]
                    T[i, j, i] += 0.1 * q[j]
            return T
        if self.kind == "dense":
            T = np.zeros((d, d, d))
            for k in range(d):
                T[:, :, k] += np.eye(d) * q[k]
                E = np.zeros((d, d))
                E[k, :] += q
                E[:, k] += q
                T[:, :, k] += 0.4 * E
            return T
        if self.kind == "softabs":
            return self.target.tress(q)
        raise ValueError(self.kind)

    def dense_metric(self, q):
        P = self.param(q)
        d = self.d
        if self.kind in ("scalar", "scalar_strong"):
            return P * np.eye(d)
        if self.kind in ("diagonal", "diagonal_strong", "diagonal_strong9"):
            return np.diag(P)
        if self.kind == "cholesky":
            return P @ P.T
        if self.kind == "dense":
            return P
        if self.kind == "softabs":
            w, V = np.linalg.eigh(P)
            a = self.softabs_coeff
            sw = np.where(np.abs(w) < 1e-12, 1.0 / a, w / np.tanh(np.where(w == 0, 1.0, w) * a))
            return (V * sw) @ V.T
        raise ValueError(self.kind)

    def metric_fn(self):
        return lambda q: self.param(q)

    def vjp_fn(self, conv):
        def vjp_of(q):
            J = self.dparam(q)
            if self.kind in ("scalar", "scalar_strong"):
                return lambda v: v * J
            if self.kind in ("diagonal", "diagonal_strong", "diagonal_strong9"):
                return lambda v: v @ J
            return lambda V: np.einsum("ij,ijk->k", V, J)

        if conv == "plain":
            return lambda q: vjp_of(q)
        return lambda q: (vjp_of(q), self.param(q))

    def build(self, conv="plain", grad_conv="plain"):
        from mici import systems as S

        t = self.target
        kw = dict(grad_neg_log_dens=t.grad_fn(grad_conv))
        if self.kind in ("scalar", "scalar_strong"):
            return S.ScalarRiemannianMetricSystem(
                t.f, self.metric_fn(), vjp_metric_scalar_func=self.vjp_fn(conv), **kw)
        if self.kind in ("diagonal", "diagonal_strong", "diagonal_strong9"):
            return S.DiagonalRiemannianMetricSystem(
                t.f, self.metric_fn(), vjp_metric_diagonal_func=self.vjp_fn(conv), **kw)
        if self.kind == "cholesky":
            return S.CholeskyFactoredRiemannianMetricSystem(
                t.f, self.metric_fn(), vjp_metric_chol_func=self.vjp_fn(conv), **kw)
        if self.kind == "dense":
            return S.DenseRiemannianMetricSystem(
                t.f, self.metric_fn(), vjp_metric_func=self.vjp_fn(conv), **kw)
        if self.kind == "softabs":
            return S.SoftAbsRiemannianMetricSystem(
                t.f, hess_neg_log_dens=t.hess_fn(conv), mtp_neg_log_dens=t.mtp_fn(conv),
                softabs_coeff=self.softabs_coeff, **kw)
        raise ValueError(self.kind)


RIEMANN_KINDS = ("scalar", "diagonal", "cholesky", "dense", "softabs")


# ----------------------------------------------------------------------------------------------
# constraints
# ----------------------------------------------------------------------------------------------


class Constraint:
    """kind: affine (1 constr), sphere (1), ellipsoid (1, non-spherical), ellplane (2, d=3)"""

    def __init__(self, kind, d, seed=0):
        self.kind, self.d = kind, d
        s = shift(seed)
        self.a = np.array([1.0, -0.5, 0.25])[:d] * (1 + 0.1 * s)
        self.b = 0.3
        self.r2 = 1.5 + 0.1 * s
        self.w = np.array([1.0, 2.0, 0.5])[:d]
        self.n_constr = 2 if kind == "ellplane" else 1

    def c(self, q):
        q = np.asarray(q, dtype=float)
        if self.kind == "affine":
            return np.array([self.a @ q - self.b])
        if self.kind == "sphere":
            return np.array([q @ q - self.r2])
        if self.kind == "ellplane":
            return np.array([self.w @ q**2 - self.r2, self.a @ q - self.b])
        if self.kind == "ellipsoid":
            return np.array([self.w @ q**2 - self.r2])
        raise ValueError(self.kind)

    def jac(self, q):
        q = np.asarray(q, dtype=float)
        if self.kind == "affine":
            return self.a[None, :].copy()
        if self.kind == "sphere":
            return 2 * q[None, :]
        if self.kind == "ellplane":
            return np.stack([2 * self.w * q, self.a])
        if self.kind == "ellipsoid":
            return (2 * self.w * q)[None, :]
        raise ValueError(self.kind)

    def hess(self, q):
        d = self.d
        H = np.zeros((self.n_constr, d, d))
        if self.kind == "sphere":
            H[0] = 2 * np.eye(d)
        elif self.kind in ("ellplane", "ellipsoid"):
            H[0] = 2 * np.diag(self.w)
        return H

    def jac_fn(self, conv):
        if conv == "plain":
            return lambda q: self.jac(q)
        return lambda q: (self.jac(q), self.c(q))

    def mhp_fn(self, conv):
        def mhp_of(q):
            H = self.hess(q)
            return lambda m: np.einsum("ij,ijk->k", m, H)

        if conv == "plain":
            return lambda q: mhp_of(q)
        if conv == "with_jac":
            return lambda q: (mhp_of(q), self.jac(q))
        return lambda q: (mhp_of(q), self.jac(q), self.c(q))

    def project(self, q, M_inv=None, iters=60):
        """Harness-side Newton projection of q onto the manifold along M^-1 J^T."""
        q = np.array(q, dtype=float)
        d = self.d
        Mi = np.eye(d) if M_inv is None else M_inv
        for _ in range(iters):
            c = self.c(q)
            if np.max(np.abs(c)) < 1e-15:
                break
            J = self.jac(q)
            lam = np.linalg.solve(J @ Mi @ J.T, c)
            q = q - Mi @ J.T @ lam
        if np.max(np.abs(self.c(q))) > 1e-12:
            raise RuntimeError("zoo projection failed")
        return q

    def project_mom(self, q, p, M_inv):
        J = self.jac(q)
        G = J @ M_inv @ J.T
        return p - J.T @ np.linalg.solve(G, J @ M_inv @ p)


def constraints(d, seed=0):
    kinds = ["affine", "sphere", "ellipsoid"] + (["ellplane"] if d == 3 else [])
    return [Constraint(k, d, seed) for k in kinds]


# ----------------------------------------------------------------------------------------------
# states
# ----------------------------------------------------------------------------------------------


def states(d, seed=0, n=4):
    s = shift(seed)
    raw = [
        ([0.5, -0.25, 0.75], [0.75, 0.5, -1.0]),
        ([-1.0, 0.5, 0.25], [0.25, -1.25, 0.5]),
        ([0.25, 1.25, -0.5], [-0.5, 0.25, 1.5]),
        ([-0.75, -1.5, 1.0], [1.25, 1.0, -0.25]),
    ][:n]
    sh = np.array(SQ) * s / 8 * 8  # s in [0,1): shift up to ~0.4
    out = []
    for q, p in raw:
        out.append((np.array(q[:d]) + sh[:d], np.array(p[:d]) - 0.5 * sh[:d]))
    return out


def mk_state(q, p, direction=1, **extra):
    from mici.states import ChainState

    return ChainState(pos=np.array(q, dtype=float), mom=None if p is None else
                      np.array(p, dtype=float), dir=direction, **extra)


# ----------------------------------------------------------------------------------------------
# system builders with dense reference Hamiltonians
# ----------------------------------------------------------------------------------------------


class SystemCase:
    """A concrete system + an independent dense reference of its documented Hamiltonian."""

    def __init__(self, name, system, d, h1_ref, h2_ref, metric_ref, constraint=None, desc=None):
        self.name, self.system, self.d = name, system, d
        self.h1_ref, self.h2_ref, self.metric_ref = h1_ref, h2_ref, metric_ref
        self.constraint = constraint
        self.desc = desc or {}

    def h_ref(self, q, p):
        return self.h1_ref(q) + self.h2_ref(q, p)


def euclidean_case(d, target, metric_name, metric_factory, metric_dense_arr, grad_conv="plain",
                   gaussian=False):
    from mici import systems as S

    metric = metric_factory()
    Md = np.array(metric_dense_arr)
    Mi = np.linalg.inv(Md)
    cls = S.GaussianEuclideanMetricSystem if gaussian else S.EuclideanMetricSystem
    system = cls(target.f, metric=metric, grad_neg_log_dens=target.grad_fn(grad_conv))
    if gaussian:
        h2 = lambda q, p: 0.5 * q @ q + 0.5 * p @ Mi @ p  # noqa: E731
    else:
        h2 = lambda q, p: 0.5 * p @ Mi @ p  # noqa: E731
    return SystemCase(
        f"{cls.__name__}/{target.name}/{metric_name}/{grad_conv}", system, d,
        target.f, h2, lambda q: Md,
        desc={"class": cls.__name__, "target": target.name, "metric": metric_name,
              "grad_conv": grad_conv, "d": d})


def constrained_case(d, target, constraint, metric_name, metric_factory, metric_dense_arr,
                     grad_conv="plain", jac_conv="plain", mhp_conv="plain", hausdorff=True,
                     gaussian=False):
    from mici import systems as S

    metric = metric_factory()
    Md = np.array(metric_dense_arr)
    Mi = np.linalg.inv(Md)
    kw = dict(metric=metric, grad_neg_log_dens=target.grad_fn(grad_conv),
              jacob_constr=constraint.jac_fn(jac_conv))
    if gaussian:
        system = S.GaussianDenseConstrainedEuclideanMetricSystem(
            target.f, constraint.c, mhp_constr=constraint.mhp_fn(mhp_conv), **kw)
        hausdorff = False
    else:
        system = S.DenseConstrainedEuclideanMetricSystem(
            target.f, constraint.c, dens_wrt_hausdorff=hausdorff,
            mhp_constr=None if hausdorff else constraint.mhp_fn(mhp_conv), **kw)

    def h1(q):
        v = target.f(q)
        if not hausdorff:
            J = constraint.jac(q)
            v += 0.5 * np.linalg.slogdet(J @ Mi @ J.T)[1]
        return v

    if gaussian:
        h2 = lambda q, p: 0.5 * q @ q + 0.5 * p @ Mi @ p  # noqa: E731
    else:
        h2 = lambda q, p: 0.5 * p @ Mi @ p  # noqa: E731
    cls = type(system).__name__
    return SystemCase(
        f"{cls}/{target.name}/{constraint.kind}/{metric_name}/h={hausdorff}/"
        f"{grad_conv},{jac_conv},{mhp_conv}", system, d, h1, h2, lambda q: Md,
        constraint=constraint,
        desc={"class": cls, "target": target.name, "constraint": constraint.kind,
              "metric": metric_name, "hausdorff": hausdorff, "grad_conv": grad_conv,
              "jac_conv": jac_conv, "mhp_conv": mhp_conv, "d": d})


def riemannian_case(d, target, kind, conv="plain", grad_conv="plain", softabs_coeff=1.0):
    fam = RiemannFamily(kind, d, target, softabs_coeff)
    system = fam.build(conv, grad_conv)

    def h1(q):
        return target.f(q) + 0.5 * np.linalg.slogdet(fam.dense_metric(q))[1]

    def h2(q, p):
        return 0.5 * p @ np.linalg.solve(fam.dense_metric(q), p)

    cls = type(system).__name__
    return SystemCase(
        f"{cls}/{target.name}/{conv}/{grad_conv}/a={softabs_coeff}", system, d, h1, h2,
        fam.dense_metric,
        desc={"class": cls, "target": target.name, "conv": conv, "grad_conv": grad_conv,
              "softabs_coeff": softabs_coeff, "d": d})


def on_manifold_states(case, seed=0, n=4):
    """States of the zoo put on the constraint manifold / cotangent space by harness code."""
    out = []
    con = case.constraint
    for q, p in states(case.d, seed, n):
        Md = case.metric_ref(q)
        Mi = np.linalg.inv(Md)
        try:
            q2 = con.project(q, Mi)
        except (RuntimeError, np.linalg.LinAlgError):
            continue
        p2 = con.project_mom(q2, p, Mi)
        out.append((q2, p2))
    return out


# ----------------------------------------------------------------------------------------------
# building a SystemCase from a JSON-able description
# ----------------------------------------------------------------------------------------------


def build_case(cfg):
    d, seed = cfg["d"], cfg.get("seed", 0)
    target = Target(cfg["target"], d)
    fam = cfg["family"]
    if fam == "riemannian":
        return riemannian_case(d, target, cfg["kind"], cfg.get("conv", "plain"),
                               cfg.get("grad_conv", "plain"), cfg.get("softabs_coeff", 1.0))
    metrics = {n: (f, dn) for n, f, dn in constant_metrics(d, seed)}
    fac, dense = metrics[cfg["metric"]]
    if fam in ("euclidean", "gaussian"):
        return euclidean_case(d, target, cfg["metric"], fac, dense,
                              cfg.get("grad_conv", "plain"), gaussian=(fam == "gaussian"))
    if fam in ("constrained", "gaussian_constrained"):
        con = Constraint(cfg["constraint"], d, seed)
        return constrained_case(d, target, con, cfg["metric"], fac, dense,
                                cfg.get("grad_conv", "plain"), cfg.get("jac_conv", "plain"),
                                cfg.get("mhp_conv", "plain"), cfg.get("hausdorff", True),
                                gaussian=(fam == "gaussian_constrained"))
    raise ValueError(fam)


def metric_names(d, include_implicit=True, include_derived=False):
    return [n for n, _, _ in constant_metrics(d, 0, include_implicit)
            if include_derived or not n.startswith("derived_")]


def system_configs(seed, tier, families=("euclidean", "gaussian", "constrained",
                                         "gaussian_constrained", "riemannian"),
                   dims=(1, 2, 3), all_convs=True, derived_metrics=False):
    """Complete product of discrete system options (JSON-able dicts)."""
    out = []
    tnames = ("quartic", "logcosh") if tier == "quick" else ("quartic", "logcosh", "gauss")
    gconvs = ("plain", "with_value") if all_convs else ("plain",)
    for d in dims:
        for tn in tnames:
            if "euclidean" in families or "gaussian" in families:
                for mn in metric_names(d, include_derived=derived_metrics):
                    for gc in gconvs:
                        for fam in ("euclidean", "gaussian"):
                            if fam in families:
                                out.append({"family": fam, "d": d, "target": tn, "metric": mn,
                                            "grad_conv": gc, "seed": seed})
            if d >= 2 and ("constrained" in families or "gaussian_constrained" in families):
                for con in constraints(d, seed):
                    for mn in metric_names(d, include_derived=derived_metrics):
                        for gc, jc in ((("plain", "plain"), ("with_value", "with_value"))
                                       if all_convs else (("plain", "plain"),)):
                            if "constrained" in families:
                                out.append({"family": "constrained", "d": d, "target": tn,
                                            "metric": mn, "constraint": con.kind,
                                            "hausdorff": True, "grad_conv": gc, "jac_conv": jc,
                                            "seed": seed})
                            for mc_ in (("plain", "with_jac", "full") if all_convs
                                        else ("plain",)):
                                if "constrained" in families:
                                    out.append({"family": "constrained", "d": d, "target": tn,
                                                "metric": mn, "constraint": con.kind,
                                                "hausdorff": False, "grad_conv": gc,
                                                "jac_conv": jc, "mhp_conv": mc_, "seed": seed})
                                if "gaussian_constrained" in families:
                                    out.append({"family": "gaussian_constrained", "d": d,
                                                "target": tn, "metric": mn,
                                                "constraint": con.kind, "grad_conv": gc,
                                                "jac_conv": jc, "mhp_conv": mc_, "seed": seed})
            if "riemannian" in families:
                for kind in RIEMANN_KINDS:
                    for conv in (("plain", "with_value") if all_convs else ("plain",)):
                        for gc in gconvs:
                            coeffs = (0.5, 1.0, 10.0) if kind == "softabs" else (1.0,)
                            for a in coeffs:
                                out.append({"family": "riemannian", "d": d, "target": tn,
                                            "kind": kind, "conv": conv, "grad_conv": gc,
                                            "softabs_coeff": a, "seed": seed})
    return out
