"""World of chain states + systems for the caching checks (C09, C18).

A world is rebuilt from an operation history on fresh real objects.  Operations:
  ["set", sid, var, vidx, mode]   mode "new" (assign a new array) | "inplace" (overwrite the bound
                                  array in place, then re-bind it - what `state.mom -= x` does)
  ["setdir", sid, d]
  ["copy", src, dst, read_only] | ["pickle", src, dst]
  ["flow", sid, "h1"|"h2", dt]
  ["call", sid, sysid, method]
"""

from __future__ import annotations

import hashlib
import pickle

import numpy as np

from mc import zoo

VALS = {
    2: {"pos": [np.array([0.5, -0.25]), np.array([-1.0, 0.75])],
        "mom": [np.array([0.75, 0.5]), np.array([0.25, -1.25])]},
    3: {"pos": [np.array([0.5, -0.25, 0.75]), np.array([-1.0, 0.5, 0.25])],
        "mom": [np.array([0.75, 0.5, -1.0]), np.array([0.25, -1.25, 0.5])]},
}

SYSTEM_SPECS = [
    # name, family cfg
    ("euclidean", {"family": "euclidean", "metric": "dense_pd"}),
    ("euclidean_identity", {"family": "euclidean", "metric": "none"}),
    ("gaussian", {"family": "gaussian", "metric": "pos_diagonal"}),
    ("gaussian_identity", {"family": "gaussian", "metric": "identity"}),
    ("constrained_hausdorff", {"family": "constrained", "metric": "dense_pd",
                               "constraint": "sphere", "hausdorff": True}),
    ("constrained_gram", {"family": "constrained", "metric": "pos_diagonal",
                          "constraint": "sphere", "hausdorff": False}),
    ("gaussian_constrained", {"family": "gaussian_constrained", "metric": "identity",
                              "constraint": "sphere"}),
    ("scalar_riemannian", {"family": "riemannian", "kind": "scalar"}),
    ("diagonal_riemannian", {"family": "riemannian", "kind": "diagonal"}),
    ("cholesky_riemannian", {"family": "riemannian", "kind": "cholesky"}),
    ("dense_riemannian", {"family": "riemannian", "kind": "dense"}),
    ("softabs_riemannian", {"family": "riemannian", "kind": "softabs"}),
]

CONVS = ("plain", "with_value")
# mixed conventions (C18): "mixed_top" = only the highest-order derivative callback of each chain
# (mhp_constr, mtp_neg_log_dens, vjp_metric_func) returns the lower-order values as well, every
# other callback is plain; "mixed_mid" = only the Hessian does.
CONVS_MIXED = ("mixed_top", "mixed_mid")


def callback_conv(conv, name):
    """Return convention of one user callback under a world convention."""
    if conv in ("plain", "with_value"):
        return conv
    if conv == "mixed_top":
        return "with_value" if name in ("mhp_constr", "mtp_neg_log_dens",
                                        "vjp_metric_func") else "plain"
    if conv == "mixed_mid":
        return "with_value" if name == "hess_neg_log_dens" else "plain"
    raise KeyError(conv)


# values a callback returns in addition to its own under the "with_value" convention
AUX_RETURNS = {
    "grad_neg_log_dens": ["neg_log_dens"],
    "jacob_constr": ["constr"],
    "mhp_constr": ["jacob_constr", "constr"],
    "vjp_metric_func": ["metric_func"],
    "hess_neg_log_dens": ["grad_neg_log_dens", "neg_log_dens"],
    "mtp_neg_log_dens": ["hess_neg_log_dens", "grad_neg_log_dens", "neg_log_dens"],
}

BASE_METHODS = ["neg_log_dens", "grad_neg_log_dens", "h1", "h2", "h", "dh1_dpos", "dh2_dpos",
                "dh2_dmom", "dh_dpos", "dh_dmom"]
CONSTR_METHODS = ["constr", "jacob_constr", "gram", "inv_gram", "log_det_sqrt_gram"]
GRAM_METHODS = ["grad_log_det_sqrt_gram", "mhp_constr"]
RIEM_METHODS = ["metric_func", "vjp_metric_func", "metric"]
SOFTABS_METHODS = ["hess_neg_log_dens", "mtp_neg_log_dens"]

# documented dependencies of each method on state variables (used by C18)
DEPENDS = {
    "neg_log_dens": {"pos"}, "grad_neg_log_dens": {"pos"}, "h1": {"pos"}, "dh1_dpos": {"pos"},
    "constr": {"pos"}, "jacob_constr": {"pos"}, "gram": {"pos"}, "inv_gram": {"pos"},
    "log_det_sqrt_gram": {"pos"}, "grad_log_det_sqrt_gram": {"pos"}, "mhp_constr": {"pos"},
    "metric_func": {"pos"}, "vjp_metric_func": {"pos"}, "metric": {"pos"},
    "hess_neg_log_dens": {"pos"}, "mtp_neg_log_dens": {"pos"},
}


def methods_of(spec_cfg):
    fam = spec_cfg["family"]
    m = list(BASE_METHODS)
    if fam in ("constrained", "gaussian_constrained"):
        m += CONSTR_METHODS
        if fam == "gaussian_constrained" or not spec_cfg.get("hausdorff", True):
            m += GRAM_METHODS
    if fam == "riemannian":
        m += RIEM_METHODS
        if spec_cfg["kind"] == "softabs":
            m += SOFTABS_METHODS
    return m


class Counter:
    def __init__(self):
        self.n = {}
        self.log = []

    def wrap(self, name, fn):
        def wrapped(*a, **k):
            self.n[name] = self.n.get(name, 0) + 1
            self.log.append((name, tuple(np.asarray(a[0], dtype=float).ravel().tolist())
                             if a else ()))
            out = fn(*a, **k)
            # closures returned by derivative functions are user code too
            if callable(out):
                return self.wrap(name + ":closure", out)
            if isinstance(out, tuple) and out and callable(out[0]):
                return (self.wrap(name + ":closure", out[0]),) + tuple(out[1:])
            return out
        return wrapped

    def total(self, include_closures=False):
        return sum(v for k, v in self.n.items() if include_closures or ":closure" not in k)

    def snapshot(self):
        return dict(self.n)


def build_system(spec_cfg, conv, d, variant=0, counter=None):
    """Build a real system whose user callbacks are counted."""
    from mici import matrices as M, systems as S

    cfg = dict(spec_cfg)
    t = zoo.Target("quartic" if variant == 0 else "logcosh", d)
    counter = counter or Counter()
    W = counter.wrap
    fam = cfg["family"]
    cc = lambda name: callback_conv(conv, name)  # noqa: E731
    nld = W("neg_log_dens", t.f)
    grad = W("grad_neg_log_dens", t.grad_fn(cc("grad_neg_log_dens")))
    if fam == "riemannian":
        famobj = zoo.RiemannFamily(cfg["kind"], d, t, 1.0 + 0.5 * variant)
        kind = cfg["kind"]
        if kind == "softabs":
            system = S.SoftAbsRiemannianMetricSystem(
                nld, grad_neg_log_dens=grad, hess_neg_log_dens=W("hess", t.hess_fn(cc("hess_neg_log_dens"))),
                mtp_neg_log_dens=W("mtp", t.mtp_fn(cc("mtp_neg_log_dens"))), softabs_coeff=1.0 + 0.5 * variant)
        else:
            mf = W("metric_func", famobj.metric_fn())
            vjp = W("vjp_metric_func", famobj.vjp_fn(cc("vjp_metric_func")))
            cls, kw = {
                "scalar": (S.ScalarRiemannianMetricSystem, "vjp_metric_scalar_func"),
                "diagonal": (S.DiagonalRiemannianMetricSystem, "vjp_metric_diagonal_func"),
                "cholesky": (S.CholeskyFactoredRiemannianMetricSystem, "vjp_metric_chol_func"),
                "dense": (S.DenseRiemannianMetricSystem, "vjp_metric_func"),
            }[kind]
            system = cls(nld, mf, grad_neg_log_dens=grad, **{kw: vjp})
        return system, counter
    metrics = {n: f for n, f, _ in zoo.constant_metrics(d, variant)}
    metric = metrics[cfg["metric"]]()
    if fam in ("euclidean", "gaussian"):
        cls = S.EuclideanMetricSystem if fam == "euclidean" else S.GaussianEuclideanMetricSystem
        return cls(nld, metric=metric, grad_neg_log_dens=grad), counter
    con = zoo.Constraint(cfg["constraint"], d, variant)
    jconv = cc("jacob_constr")
    mconv = "full" if cc("mhp_constr") == "with_value" else "plain"
    constr = W("constr", con.c)
    jac = W("jacob_constr", con.jac_fn(jconv))
    mhp = W("mhp_constr", con.mhp_fn(mconv))
    if fam == "gaussian_constrained":
        system = S.GaussianDenseConstrainedEuclideanMetricSystem(
            nld, constr, metric=metric, grad_neg_log_dens=grad, jacob_constr=jac, mhp_constr=mhp)
    else:
        h = cfg.get("hausdorff", True)
        system = S.DenseConstrainedEuclideanMetricSystem(
            nld, constr, metric=metric, dens_wrt_hausdorff=h, grad_neg_log_dens=grad,
            jacob_constr=jac, mhp_constr=None if h else mhp)
    return system, counter


class World:
    def __init__(self, spec_name, conv, d=2, state_cls=None):
        from mici.states import ChainState

        self.spec_name, self.conv, self.d = spec_name, conv, d
        self.spec_cfg = dict(SYSTEM_SPECS)[spec_name]
        self.counters = {}
        self.systems = {}
        for sid, variant in (("A", 0), ("B", 1)):
            self.systems[sid], self.counters[sid] = build_system(self.spec_cfg, conv, d, variant)
        self.methods = methods_of(self.spec_cfg)
        cls = state_cls or ChainState
        self.states = {"s0": cls(pos=VALS[d]["pos"][0].copy(), mom=VALS[d]["mom"][0].copy(),
                                 dir=1)}
        self.failed = None
        # reference model (C18): per state, the pos-dependent methods whose value has been
        # requested (or returned by a derivative callback) since `pos` was last assigned; copies
        # inherit it.  An under-approximation of what must be cached (internal calls made by
        # composite methods and flows are not tracked; pickled copies start empty).
        self.valid = {"s0": set()}

    def _model(self, op):
        kind = op[0]
        V = self.valid
        if kind == "set":
            if op[2] == "pos":
                V[op[1]] = set()
        elif kind == "copy":
            V[op[2]] = set(V[op[1]])
        elif kind == "pickle":
            V[op[2]] = set()
        elif kind == "flow":
            if op[2] == "h2":
                V[op[1]] = set()
        elif kind == "call" and op[2] == "A":
            m = op[3]
            if m in DEPENDS:
                V[op[1]].add(m)
                if m in AUX_RETURNS and callback_conv(self.conv, m) == "with_value":
                    aux = list(AUX_RETURNS[m])
                    if m == "vjp_metric_func" and self.spec_name == "softabs_riemannian":
                        aux = []
                    V[op[1]].update(a for a in aux if a in self.methods)

    def apply(self, op):
        out = self._apply(op)
        self._model(op)
        return out

    def _apply(self, op):
        kind = op[0]
        S = self.states
        if kind == "set":
            _, sid, var, vidx, mode = op
            val = VALS[self.d][var][vidx]
            if mode == "new":
                setattr(S[sid], var, val.copy())
            else:
                arr = getattr(S[sid], var)
                arr[...] = val
                setattr(S[sid], var, arr)
        elif kind == "setdir":
            S[op[1]].dir = op[2]
        elif kind == "copy":
            S[op[2]] = S[op[1]].copy(read_only=op[3])
        elif kind == "pickle":
            S[op[2]] = pickle.loads(pickle.dumps(S[op[1]]))
        elif kind == "flow":
            _, sid, comp, dt = op
            getattr(self.systems["A"], comp + "_flow")(S[sid], dt)
        elif kind == "call":
            _, sid, sysid, meth = op
            return getattr(self.systems[sysid], meth)(S[sid])
        else:
            raise KeyError(kind)
        return None

    def enabled_ops(self, second_state_ops=True):
        ops = []
        live = sorted(self.states)
        for sid in live:
            ro = self.states[sid]._read_only  # noqa: SLF001
            if not ro:
                for var in ("pos", "mom"):
                    for vidx in (0, 1):
                        ops.append(["set", sid, var, vidx, "new"])
                        if sid == "s0":
                            ops.append(["set", sid, var, vidx, "inplace"])
                if sid == "s0":
                    ops.append(["setdir", sid, -1])
                    ops.append(["flow", sid, "h1", 0.25])
                    if hasattr(self.systems["A"], "h2_flow"):
                        ops.append(["flow", sid, "h2", 0.25])
            for m in self.methods:
                ops.append(["call", sid, "A", m])
        ops.append(["copy", "s0", "s1", False])
        ops.append(["copy", "s0", "s1", True])
        ops.append(["pickle", "s0", "s1"])
        if "s1" in self.states:
            ops.append(["copy", "s1", "s0", False])
        return ops


def digest(val):
    """Stable digest of a cached value."""
    from mici.matrices import Matrix

    if val is None:
        return "None"
    if isinstance(val, np.ndarray):
        return "a" + hashlib.sha1(np.ascontiguousarray(val).tobytes()).hexdigest()[:12]
    if isinstance(val, Matrix):
        try:
            return "M" + type(val).__name__ + digest(np.asarray(val.array))
        except Exception:  # noqa: BLE001
            return "M" + type(val).__name__
    if callable(val):
        # functions digested by applying them to a fixed argument of a plausible shape
        for arg in (np.array(0.7), np.array([0.7, -1.3]), np.array([[0.7, -1.3], [0.4, 1.9]]),
                    np.array([[0.7, -1.3]]), np.array([0.7, -1.3, 0.4]),
                    np.arange(9.0).reshape(3, 3) / 7, np.array([[0.7, -1.3, 0.4]])):
            try:
                return "f" + digest(np.asarray(val(arg), dtype=float))
            except Exception:  # noqa: BLE001
                continue
        return "f?"
    if isinstance(val, tuple):
        return "t" + "".join(digest(v) for v in val)
    try:
        return "s" + repr(float(val))
    except Exception:  # noqa: BLE001
        return "o" + repr(val)[:40]


def _arrays_in(val):
    from mici.matrices import Matrix

    if isinstance(val, np.ndarray):
        return [val]
    if isinstance(val, Matrix):
        out = []
        for v in val.__dict__.values():
            if isinstance(v, np.ndarray):
                out.append(v)
        return out
    return []


def canon(world):
    """Canonical form: variable values, flags, cache contents (digests), aliasing of cached arrays
    with live variable arrays, dependency sets.  System identities are replaced by labels."""
    sysid = {id(s): k for k, s in world.systems.items()}
    live_arrays = []
    for sid in sorted(world.states):
        st = world.states[sid]
        for var in ("pos", "mom"):
            v = st._variables.get(var)  # noqa: SLF001
            if isinstance(v, np.ndarray):
                live_arrays.append((sid, var, v))
    def klabel(key):
        # cache keys are (name, id(system)) in the current implementation; be agnostic
        if isinstance(key, tuple):
            return tuple(sysid.get(x, "?") if isinstance(x, int) else x for x in key)
        return (key,)

    out = []
    for sid in sorted(world.states):
        st = world.states[sid]
        vars_ = tuple((k, digest(v) if isinstance(v, np.ndarray) else repr(v))
                      for k, v in sorted(st._variables.items()))  # noqa: SLF001
        cache = []
        for key, val in st._cache.items():  # noqa: SLF001
            alias = tuple((s, var) for s, var, arr in live_arrays
                          for a in _arrays_in(val) if np.shares_memory(a, arr))
            cache.append((klabel(key), digest(val), alias))
        deps = tuple((var, tuple(sorted(klabel(k) for k in keys)))
                     for var, keys in sorted(st._dependencies.items()))  # noqa: SLF001
        var_alias = tuple((s, var) for s, var, arr in live_arrays if s != sid
                          for v2 in ("pos", "mom")
                          if isinstance(st._variables.get(v2), np.ndarray)  # noqa: SLF001
                          and np.shares_memory(st._variables[v2], arr))  # noqa: SLF001
        out.append((sid, vars_, bool(st._read_only), tuple(sorted(cache)), deps,  # noqa: SLF001
                    var_alias))
    return tuple(out)


def fresh_state_like(st):
    """A from-scratch ChainState holding copies of the current variable values."""
    from mici.states import ChainState

    return ChainState(**{k: (v.copy() if isinstance(v, np.ndarray) else v)
                         for k, v in st._variables.items()})  # noqa: SLF001


def value_equal(a, b):
    """Exact equality of method results (arrays bit-identical; functions on fixed arguments)."""
    return digest(a) == digest(b)
