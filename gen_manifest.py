#!/usr/bin/env python3
"""Regenerates MANIFEST.json from the table below (kept in one place so it stays valid)."""
import json, sys
from pathlib import Path

ROOT = Path(__file__).resolve().parent
CHECKS = {}
exec((ROOT / "manifest_table.py").read_text(), CHECKS)
claimed = CHECKS["CLAIMED"]
na = CHECKS["NOT_APPLICABLE"]
checks = []
for pid, c in sorted(claimed.items()):
    checks.append({
        "property_id": pid,
        "quick_cmd": f"./check {pid} --tier quick",
        "thorough_cmd": f"./check {pid} --tier thorough",
        "evidence_file": f"/verif/evidence/{pid}.json",
        "replay_cmd_template": f"./check {pid} --replay {{path}}",
        "engine": c["engine"],
        "level_claimed": {"category": c["category"], "text": c["text"], "design_ref": c["design_ref"]},
        "level_note": c["note"],
        "technique": c["technique"],
    })
manifest = {
    "version": 1,
    "setup_cmd": "./setup.sh",
    "hooks": {
        "guard": "MICI_VERIF",
        "enable": "no source hooks are needed; checks import /repo/src directly (PYTHONPATH) and set MICI_VERIF=1 for uniformity",
        "baseline_off_cmd": "cd /repo && /venv/bin/python -m pytest -ra -q -p no:cacheprovider --timeout=900 --continue-on-collection-errors",
        "source_commits": [],
        "add_only": True,
    },
    "engines": CHECKS["ENGINES"],
    "checks": checks,
    "notes": CHECKS["NOTES"],
    "not_applicable": [{"property_id": k, "reason": v} for k, v in sorted(na.items())],
}
(ROOT / "MANIFEST.json").write_text(json.dumps(manifest, indent=1))
print("wrote MANIFEST.json with", len(checks), "checks;", len(na), "not applicable")
